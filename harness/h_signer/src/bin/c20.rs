//! C20 correspondence harness: a signer signs each beacon once, with its epoch key, acceptably
//! to aggregators.
//!
//! Drives the signer's own integration-test wiring (`StateMachineTester::init`, path-included
//! from /repo/mithril-signer/tests/test_extensions/state_machine_tester.rs: real StateMachine,
//! SignerRunner, epoch service, certifier, single signer, SQLite repositories, the real
//! AggregatorHttpClient over loopback HTTP) with a PRNG event list, against a fake aggregator
//! defined here (the repository's own fake discards signatures and cannot inject faults; ours has
//! the same public API, records every request, has its own epoch view and per-tick fault modes,
//! and survives signer restarts).  The same event list is given to the Coq model
//! (`C20.Model.run_obs`); observations: state after each event, requests received by the
//! aggregator (entity, beacon, which registration epoch's key signed, response mode), recording
//! epochs of registrations, and which of the time point's entities are marked as signed.
//!
//! `holds` is judged from provenance only (no model): see `judge`.
use std::collections::{BTreeMap, BTreeSet};
use std::path::PathBuf;
use std::sync::Arc;

use hc::{coq, Case, Rng, Sink};
use mithril_common::entities::{
    BlockNumber, BlockNumberOffset, CardanoTransactionsSigningConfig, ChainPoint, Epoch, ProtocolParameters, SignedEntityConfig, SignedEntityType,
    SignedEntityTypeDiscriminants as D, SignerWithStake, SingleSignature, SlotNumber, TimePoint,
};
use mithril_common::messages::{RegisterSignatureMessageHttp, SignedEntityTypeMessage, SignerMessagePart};
use mithril_common::crypto_helper::{ProtocolInitializer, ProtocolSignerVerificationKeyForConcatenation};
use mithril_common::protocol::SignerBuilder;
use mithril_common::test::builder::MithrilFixtureBuilder;
use mithril_protocol_config::model::{MithrilNetworkConfigurationForEpoch, SignedEntityTypeConfiguration};
use mithril_signer::services::SignedBeaconStore;
use mithril_signer::SignerState;

#[allow(dead_code, unused_imports)]
mod test_extensions {
    #[path = "/repo/mithril-signer/tests/test_extensions/state_machine_tester.rs"]
    mod state_machine_tester;
    pub use state_machine_tester::StateMachineTester;

    pub use fake_aggregator_http::FakeAggregatorHttpServer;

    /// the tester logs at debug level on every request: discard
    pub fn stdout_logger() -> slog::Logger {
        slog::Logger::root(slog::Discard, slog::o!())
    }

    /// Fake aggregator with the public API the tester expects (`spawn`, `url`,
    /// `release_epoch_settings`, `set_network_configuration_marker`, `register_signer`, …), whose
    /// state lives in a process-wide store chosen by the driver (so that it survives a signer
    /// restart), with an explicit epoch view and per-tick fault modes.
    pub mod fake_aggregator_http {
        use std::collections::BTreeMap;
        use std::sync::{Arc, Mutex};

        use axum::{
            extract::{Path, State},
            http::StatusCode,
            response::{IntoResponse, Response},
            routing::{get, post},
            Json, Router,
        };
        use axum_test::TestServer;
        use reqwest::Url;
        use slog::Logger;
        use tokio::sync::RwLock;

        use mithril_common::{
            entities::Epoch,
            messages::{
                EpochSettingsMessage, ProtocolConfigurationMessage, RegisterSignatureMessageHttp,
                RegisterSignerMessage, SignerMessagePart,
            },
            StdResult,
        };
        use mithril_protocol_config::{
            model::MithrilNetworkConfigurationForEpoch,
            test::double::FakeMithrilNetworkConfigurationProviderWithEpochMarkers,
        };
        use mithril_ticker::MithrilTickerService;

        #[derive(Clone, Copy, PartialEq, Eq, Debug)]
        pub enum RegMode {
            Open,
            Closed,
            Fail,
            Drop,
            /// recorded (last registration of a party wins, as the real aggregator's store) but
            /// answered with a failure status
            Ambig,
        }
        #[derive(Clone, Copy, PartialEq, Eq, Debug)]
        pub enum PubMode {
            Ok,
            Clean,
            Ambig,
            Gone,
        }

        pub struct VStore {
            /// registrations the aggregator holds, by recording epoch
            pub regs: BTreeMap<u64, Vec<SignerMessagePart>>,
            pub markers: BTreeMap<Epoch, MithrilNetworkConfigurationForEpoch>,
            pub withhold_epoch_settings: bool,
            /// the epoch the aggregator believes it is in
            pub agg_epoch: u64,
            pub down: bool,
            pub reg_mode: RegMode,
            pub pub_mode: PubMode,
            /// status codes of this tick: failure answers (register-signer Fail/Ambig,
            /// register-signatures Clean/Ambig) and the success answer of register-signatures
            pub reg_fail_code: u16,
            pub pub_fail_code: u16,
            pub pub_ok_code: u16,
            /// every register-signatures request received (with the mode it was answered with)
            pub sig_log: Vec<(RegisterSignatureMessageHttp, PubMode)>,
            /// every register-signer request received, failing ones included:
            /// (recording epoch in the message, signer, mode it was answered in)
            pub reg_log: Vec<(u64, SignerMessagePart, RegMode)>,
        }
        impl VStore {
            pub fn new() -> Self {
                VStore {
                    regs: BTreeMap::new(),
                    markers: BTreeMap::new(),
                    withhold_epoch_settings: false,
                    agg_epoch: 0,
                    down: false,
                    reg_mode: RegMode::Open,
                    pub_mode: PubMode::Ok,
                    reg_fail_code: 500,
                    pub_fail_code: 500,
                    pub_ok_code: 201,
                    sig_log: vec![],
                    reg_log: vec![],
                }
            }
            pub fn marker_at_or_before(&self, e: Epoch) -> Option<MithrilNetworkConfigurationForEpoch> {
                self.markers.range(..=e).next_back().map(|(_, m)| m.clone())
            }
        }

        static SHARED: Mutex<Option<Arc<RwLock<VStore>>>> = Mutex::new(None);
        pub fn set_shared_store(s: Arc<RwLock<VStore>>) {
            *SHARED.lock().unwrap() = Some(s);
        }

        pub struct FakeAggregatorHttpServer {
            server: TestServer,
            store: Arc<RwLock<VStore>>,
            url: Url,
        }

        impl FakeAggregatorHttpServer {
            pub fn spawn(
                _ticker_service: Arc<MithrilTickerService>,
                _network_configuration_provider: Arc<FakeMithrilNetworkConfigurationProviderWithEpochMarkers>,
                _logger: Logger,
            ) -> StdResult<FakeAggregatorHttpServer> {
                let store = SHARED.lock().unwrap().clone().expect("shared aggregator store set by the driver");
                let router = Router::new()
                    .route("/epoch-settings", get(epoch_settings))
                    .route("/protocol-configuration/{epoch}", get(protocol_configuration_by_epoch))
                    .route("/register-signer", post(register_signer))
                    .route("/register-signatures", post(register_signatures))
                    .with_state(store.clone());
                let server = TestServer::builder().http_transport().build(router);
                let url = server.server_address().unwrap();
                Ok(FakeAggregatorHttpServer { server, store, url })
            }
            pub fn url(&self) -> &Url {
                &self.url
            }
            pub fn server_url(&self, path: &str) -> String {
                self.server.server_url(path).unwrap().to_string()
            }
            pub async fn set_network_configuration_marker(&self, e: Epoch, m: MithrilNetworkConfigurationForEpoch) {
                self.store.write().await.markers.insert(e, m);
            }
            pub async fn get_registered_signers(&self, epoch: &Epoch) -> Option<Vec<SignerMessagePart>> {
                self.store.read().await.regs.get(&**epoch).cloned()
            }
            pub async fn release_epoch_settings(&self) {
                self.store.write().await.withhold_epoch_settings = false;
            }
            pub async fn register_signer(&self, epoch: Epoch, signer: SignerMessagePart) {
                self.store.write().await.regs.entry(*epoch).or_default().push(signer);
            }
            pub async fn protocol_config_send_unknown_signed_entities(&self) {}
            pub async fn protocol_config_send_discontinued_signed_entities(&self) {}
        }

        type St = State<Arc<RwLock<VStore>>>;

        async fn epoch_settings(State(store): St) -> Response {
            let s = store.read().await;
            if s.withhold_epoch_settings || s.down {
                return StatusCode::INTERNAL_SERVER_ERROR.into_response();
            }
            let epoch = Epoch(s.agg_epoch);
            // as the aggregator's epoch service: current = retrieval epoch, next = next retrieval epoch
            let current = match epoch.offset_to_signer_retrieval_epoch() {
                Ok(e) => s.regs.get(&*e).cloned().unwrap_or_default(),
                Err(_) => return StatusCode::INTERNAL_SERVER_ERROR.into_response(),
            };
            let next = s
                .regs
                .get(&*epoch.offset_to_next_signer_retrieval_epoch())
                .cloned()
                .unwrap_or_default();
            #[allow(deprecated)]
            Json(EpochSettingsMessage {
                epoch,
                signer_registration_protocol_parameters: None,
                current_signers: current,
                next_signers: next,
                cardano_transactions_signing_config: None,
            })
            .into_response()
        }

        async fn protocol_configuration_by_epoch(Path(epoch): Path<u64>, State(store): St) -> Response {
            let s = store.read().await;
            if s.down {
                return StatusCode::INTERNAL_SERVER_ERROR.into_response();
            }
            match s.marker_at_or_before(Epoch(epoch)) {
                Some(config) => {
                    let message = ProtocolConfigurationMessage {
                        protocol_parameters: config.protocol_parameters,
                        cardano_transactions_signing_config: config.signed_entity_types_config.cardano_transactions,
                        cardano_blocks_transactions_signing_config: config
                            .signed_entity_types_config
                            .cardano_blocks_transactions,
                        available_signed_entity_types: config
                            .enabled_signed_entity_types
                            .into_iter()
                            .map(Into::into)
                            .collect(),
                    };
                    (StatusCode::OK, Json(message)).into_response()
                }
                None => StatusCode::INTERNAL_SERVER_ERROR.into_response(),
            }
        }

        async fn register_signatures(State(store): St, Json(message): Json<RegisterSignatureMessageHttp>) -> Response {
            let mut s = store.write().await;
            let mode = s.pub_mode;
            s.sig_log.push((message, mode));
            match mode {
                PubMode::Ok => StatusCode::from_u16(s.pub_ok_code).unwrap().into_response(),
                PubMode::Gone => StatusCode::GONE.into_response(),
                PubMode::Clean | PubMode::Ambig => StatusCode::from_u16(s.pub_fail_code).unwrap().into_response(),
            }
        }

        async fn register_signer(State(store): St, Json(message): Json<RegisterSignerMessage>) -> Response {
            let mut s = store.write().await;
            let signer = SignerMessagePart {
                party_id: message.party_id,
                verification_key_for_concatenation: message.verification_key_for_concatenation,
                verification_key_signature_for_concatenation: message.verification_key_signature_for_concatenation,
                operational_certificate: message.operational_certificate,
                kes_evolutions: message.kes_evolutions,
            };
            let mode = s.reg_mode;
            s.reg_log.push((*message.epoch, signer.clone(), mode));
            let fail = StatusCode::from_u16(s.reg_fail_code).unwrap();
            match mode {
                RegMode::Closed => StatusCode::from_u16(550).unwrap().into_response(),
                RegMode::Fail => fail.into_response(),
                RegMode::Drop => StatusCode::CREATED.into_response(),
                RegMode::Open | RegMode::Ambig => {
                    // the last registration of a party for an epoch wins (mithril-aggregator
                    // signer_registration_store: insert or replace)
                    let l = s.regs.entry(*message.epoch).or_default();
                    l.retain(|p| p.party_id != signer.party_id);
                    l.push(signer);
                    if mode == RegMode::Open { StatusCode::CREATED.into_response() } else { fail.into_response() }
                }
            }
        }
    }
}

use test_extensions::fake_aggregator_http::{set_shared_store, PubMode, RegMode, VStore};
use test_extensions::StateMachineTester;
use tokio::sync::RwLock;

// ---------------------------------------------------------------------------------------------
// The protocol's offsets as the specification states them (NOT read from the code under test):
// a registration made during epoch r is recorded under r+1 and is the signing key during r+2;
// the signer set in force at epoch E is the one recorded under E-1.
const SPEC_RECORDING: u64 = 1;
const SPEC_RETRIEVAL_BACK: u64 = 1;
const SPEC_SIGNING: u64 = 2;

#[derive(Clone, Debug)]
struct Tick {
    epoch: u64,
    imm: u64,
    block: u64,
    lag: u64,
    down: bool,
    reg: RegMode,
    pubm: PubMode,
    /// status codes of the failure / success answers of this tick (environment only: the model knows
    /// the class of the answer, not its code)
    reg_fail_code: u16,
    pub_fail_code: u16,
    pub_ok_code: u16,
    /// other fixture signers (indices >= 1) the aggregator records during this tick, under its
    /// recording epoch — environment only, invisible to the model
    others: Vec<usize>,
}
#[derive(Clone, Debug)]
enum Ev {
    Tick(Tick),
    Restart,
}

struct Scenario {
    kind: String,
    /// per network-configuration epoch (GET /protocol-configuration/{epoch}): Some(step) =
    /// CardanoTransactions is enabled with that step (security parameter 0)
    cfgs: Vec<Option<u64>>,
    e0: u64,
    lucky: Vec<bool>, // by config epoch = recording epoch of the key created with it
    events: Vec<Ev>,
}

fn gen_scenario(rng: &mut Rng, n_signers: usize, thorough: bool) -> Scenario {
    let e0 = rng.range(1, 3);
    let n_ticks = rng.range(28, 50) as usize;
    let flavour = rng.below(6);
    let (kind, fault_den, restart_den) = match flavour {
        0 => ("calm", 40, 60),
        1 => ("publish-faults", 4, 25),
        2 => ("registration-faults", 4, 25),
        3 => ("restarts", 8, 7),
        _ => ("mixed", 5, 9),
    };
    let _ = thorough;
    // lucky epochs: mostly winning
    let lucky: Vec<bool> = (0..40).map(|_| !rng.chance(1, 6)).collect();
    // plan epoch boundaries: at least 4 epoch changes; the first two come early (a key registered
    // during epoch r signs during r+2, so nothing can be signed before the third epoch)
    let n_changes = rng.range(4, 7) as usize;
    let mut change_at: BTreeSet<usize> = BTreeSet::new();
    change_at.insert(rng.range(2, 4) as usize);
    change_at.insert(rng.range(5, 8) as usize);
    while change_at.len() < n_changes {
        change_at.insert(rng.range(9, n_ticks as u64 - 2) as usize);
    }
    let (mut epoch, mut imm, mut block) = (e0, 1u64, 100u64);
    let mut agg = 0u64;
    let mut events = vec![];
    let mut ticks = 0usize;
    // the registration round is often not yet usable when the signer first sees a new epoch: the
    // first attempts of the epoch fail in one mode, then the round opens
    let mut early_fail: (u64, RegMode) = (0, RegMode::Open);
    while ticks < n_ticks {
        if ticks > 0 && rng.chance(1, restart_den) {
            events.push(Ev::Restart);
        }
        if change_at.contains(&ticks) {
            epoch += if rng.chance(1, 12) { 2 } else { 1 };
            if flavour != 0 && flavour != 1 && rng.chance(1, 3) {
                early_fail = (rng.range(2, 4), *rng.pick(&[RegMode::Closed, RegMode::Closed, RegMode::Fail, RegMode::Ambig]));
            }
        }
        if rng.chance(1, 3) {
            imm += rng.range(1, 3);
        }
        if rng.chance(1, 2) {
            block += rng.range(1, 40);
        }
        // aggregator's epoch view: monotone, never ahead of the chain
        let lag = if rng.chance(1, if flavour == 0 { 30 } else { 6 }) { rng.range(1, 2) } else { 0 };
        let view = std::cmp::max(agg, epoch.saturating_sub(lag));
        let lag = epoch - view;
        agg = view;
        let down = rng.chance(1, fault_den * 2);
        let reg = if (flavour == 2 || flavour >= 4) && rng.chance(1, fault_den) {
            *rng.pick(&[RegMode::Closed, RegMode::Closed, RegMode::Fail, RegMode::Drop, RegMode::Ambig])
        } else if early_fail.0 > 0 {
            early_fail.0 -= 1;
            early_fail.1
        } else {
            RegMode::Open
        };
        // status codes: client errors, server errors (550 is special for register-signer only) and
        // "unhandled" 2xx codes are all failures; 201 and 202 both acknowledge a signature
        let reg_fail_code = *rng.pick(&[500u16, 500, 503, 400, 409, 412, 200, 202, 551]);
        let pub_fail_code = *rng.pick(&[500u16, 500, 503, 400, 404, 409, 412, 550, 200, 204]);
        let pub_ok_code = *rng.pick(&[201u16, 201, 202]);
        let pubm = if (flavour == 1 || flavour >= 3) && rng.chance(1, fault_den.min(6)) {
            *rng.pick(&[PubMode::Clean, PubMode::Ambig, PubMode::Ambig, PubMode::Gone])
        } else {
            PubMode::Ok
        };
        // fixture signer 1 registers in every epoch (announced signer sets are never empty: an empty
        // next-signer set makes the signer's message computation fail, which the model leaves out);
        // the others come and go
        let mut others = vec![1];
        for i in 2..n_signers {
            if rng.chance(1, 3) {
                others.push(i);
            }
        }
        events.push(Ev::Tick(Tick { epoch, imm, block, lag, down, reg, pubm, reg_fail_code, pub_fail_code, pub_ok_code, others }));
        ticks += 1;
    }
    // signed entity configuration per network-configuration epoch: CardanoTransactions off / on for
    // the whole run / switched on (and possibly off again) at some epoch, the step possibly changing
    let mut cfgs: Vec<Option<u64>> = vec![None; N_CFG];
    let kind = match rng.below(6) {
        0 | 1 | 2 => kind.to_string(),
        3 => {
            let step = *rng.pick(&[15u64, 30, 40]);
            cfgs.iter_mut().for_each(|c| *c = Some(step));
            format!("{kind}+tx")
        }
        _ => {
            let on = rng.range(e0, e0 + 4) as usize;
            let off = if rng.chance(1, 2) { N_CFG } else { on + rng.range(1, 3) as usize };
            let change = on + rng.range(1, 3) as usize;
            let (s1, s2) = (*rng.pick(&[15u64, 30, 40]), *rng.pick(&[15u64, 30, 40]));
            for (k, c) in cfgs.iter_mut().enumerate() {
                if k >= on && k < off {
                    *c = Some(if k < change { s1 } else { s2 });
                }
            }
            format!("{kind}+tx-switch")
        }
    };
    Scenario { kind, cfgs, e0, lucky, events }
}

fn params(lucky: bool) -> ProtocolParameters {
    // phi_f = 1 wins every lottery; 1e-15 practically never (< 2e-14 per signature)
    ProtocolParameters { k: 3, m: 10, phi_f: if lucky { 1.0 } else { 1e-15 } }
}

/// number of configuration epochs described per scenario (chain epochs stay below it)
const N_CFG: usize = 40;

fn allowed(tx: bool) -> BTreeSet<D> {
    let mut s = BTreeSet::from([D::MithrilStakeDistribution, D::CardanoStakeDistribution, D::CardanoDatabase]);
    if tx {
        s.insert(D::CardanoTransactions);
    }
    s
}
fn tx_config(sc: &Scenario, cfg_epoch: u64) -> Option<CardanoTransactionsSigningConfig> {
    sc.cfgs.get(cfg_epoch as usize).copied().flatten().map(|step| CardanoTransactionsSigningConfig {
        security_parameter: BlockNumberOffset(0),
        step: BlockNumber(step),
    })
}
/// the signed entity configuration the network configuration of `cfg_epoch` describes
fn entity_config(sc: &Scenario, cfg_epoch: u64) -> SignedEntityConfig {
    let tx = tx_config(sc, cfg_epoch);
    SignedEntityConfig {
        allowed_discriminants: allowed(tx.is_some()),
        cardano_transactions_signing_config: tx,
        cardano_blocks_transactions_signing_config: None,
    }
}

fn entity_obs(e: &SignedEntityType) -> String {
    match e {
        SignedEntityType::MithrilStakeDistribution(e) => coq::ol(&[coq::oz(0), coq::on(**e)]),
        SignedEntityType::CardanoStakeDistribution(e) => coq::ol(&[coq::oz(1), coq::on(**e)]),
        SignedEntityType::CardanoTransactions(e, b) => coq::ol(&[coq::oz(2), coq::on(**e), coq::on(**b)]),
        SignedEntityType::CardanoBlocksTransactions(e, b, o) => {
            coq::ol(&[coq::oz(3), coq::on(**e), coq::on(**b), coq::on(**o)])
        }
        SignedEntityType::CardanoDatabase(b) => {
            coq::ol(&[coq::oz(4), coq::on(*b.epoch), coq::on(b.immutable_file_number)])
        }
        #[allow(unreachable_patterns)]
        _ => coq::ol(&[coq::oz(99)]),
    }
}

fn state_obs(s: &SignerState) -> String {
    match s {
        SignerState::Init => coq::ol(&[coq::oz(0)]),
        SignerState::Unregistered { epoch } => coq::ol(&[coq::oz(1), coq::on(**epoch)]),
        SignerState::ReadyToSign { epoch } => coq::ol(&[coq::oz(2), coq::on(**epoch)]),
        SignerState::RegisteredNotAbleToSign { epoch } => coq::ol(&[coq::oz(3), coq::on(**epoch)]),
    }
}

fn pub_code(p: PubMode) -> i128 {
    match p {
        PubMode::Ok => 0,
        PubMode::Clean => 1,
        PubMode::Ambig => 2,
        PubMode::Gone => 3,
    }
}

/// One request seen by the aggregator, with provenance established by the harness.
#[derive(Clone, Debug)]
struct SeenSig {
    tick: usize, // index in the event list
    chain_epoch: u64,
    entity: SignedEntityType,
    sig_hex: String,
    mode: PubMode,
    /// recording epochs r such that the signature verifies with the key our party registered under r
    /// (signer set = everything recorded under r, parameters of epoch r)
    key_epochs: Vec<u64>,
    pre_state: SignerState,
    post_state: SignerState,
}
#[derive(Clone, Debug)]
struct SeenReg {
    tick: usize,
    chain_epoch: u64,
    rec_epoch: u64,
    /// mode the aggregator answered in: Open / Drop = acknowledged (201); Open / Ambig = recorded
    mode: RegMode,
    /// verification key carried by the request
    vk: String,
}
impl SeenReg {
    fn acked(&self) -> bool {
        matches!(self.mode, RegMode::Open | RegMode::Drop)
    }
    fn recorded(&self) -> bool {
        self.mode == RegMode::Open
    }
}
/// what the harness reads after a tick, besides the aggregator's logs
#[derive(Clone, Debug)]
struct TickRec {
    i: usize,
    epoch: u64,
    imm: u64,
    block: u64,
    /// aggregator reachable, up to date, registration round open
    reg_good: bool,
    pre: SignerState,
    post: SignerState,
    /// the signer's protocol initializer store after the tick: epoch -> verification key
    stored: BTreeMap<u64, String>,
    /// the registration of our party the aggregator holds after the tick: epoch -> verification key
    agg_holds: BTreeMap<u64, String>,
}

struct RunOut {
    per_event: Vec<String>,
    sigs: Vec<SeenSig>,
    regs: Vec<SeenReg>,
    /// (event index, entity) pairs found marked as signed after that event
    marks: Vec<(usize, SignedEntityType)>,
    critical: Option<String>,
    n_epochs: usize,
    /// (event index, state after the event)
    states: Vec<(usize, SignerState)>,
    ticks: Vec<TickRec>,
    /// index of every restart event
    restarts: Vec<usize>,
}

struct Ctx {
    signers: Vec<SignerWithStake>,
    stakes: BTreeMap<String, u64>,
}

fn to_part(s: &SignerWithStake) -> SignerMessagePart {
    let signer: mithril_common::entities::Signer = s.clone().into();
    signer.into()
}

/// Which of our registrations' keys verify this signature?  For each recording epoch r under
/// which our party sent a registration: signer set = aggregator's records under r (plus the sent
/// registration itself when the aggregator dropped it), stakes of the fixture, parameters of r.
fn identify_keys(
    ctx: &Ctx,
    store: &VStore,
    sent: &BTreeMap<u64, SignerMessagePart>, // acknowledged registrations of our party by recording epoch
    lucky: &[bool],
    msg: &RegisterSignatureMessageHttp,
) -> Vec<u64> {
    let mut out = vec![];
    let Ok(psig) = msg.signature.clone().try_into() else { return out };
    let single = SingleSignature::new(msg.party_id.clone(), psig, msg.won_indexes.clone());
    for (r, mine) in sent {
        let mut parts: Vec<SignerMessagePart> = store.regs.get(r).cloned().unwrap_or_default();
        parts.retain(|p| p.party_id != mine.party_id);
        parts.push(mine.clone());
        let with_stake: Vec<SignerWithStake> = match parts
            .into_iter()
            .map(|p| {
                let stake = *ctx.stakes.get(&p.party_id).unwrap_or(&0);
                let signer: mithril_common::entities::Signer = p.try_into()?;
                Ok::<_, anyhow::Error>(SignerWithStake::from_signer(signer, stake))
            })
            .collect()
        {
            Ok(v) => v,
            Err(_) => continue,
        };
        let Ok(builder) = SignerBuilder::new(&with_stake, &params(lucky[*r as usize])) else { continue };
        let ms = builder.build_multi_signer();
        if ms.verify_single_signature(&msg.signed_message, &single).is_ok() {
            out.push(*r);
        }
    }
    out
}

async fn init_tester(work: &PathBuf, ctx: &Ctx, tp: &TimePoint) -> StateMachineTester {
    StateMachineTester::init(work, &ctx.signers, tp.clone())
        .await
        .expect("state machine tester init should not fail")
}

fn time_point(epoch: u64, imm: u64, block: u64) -> TimePoint {
    TimePoint {
        epoch: Epoch(epoch),
        immutable_file_number: imm,
        chain_point: ChainPoint {
            slot_number: SlotNumber(block),
            block_number: BlockNumber(block),
            block_hash: format!("block_hash-{block}"),
        },
    }
}

async fn run_impl(ctx: &Ctx, sc: &Scenario, work: PathBuf) -> RunOut {
    let _ = std::fs::remove_dir_all(&work);
    std::fs::create_dir_all(&work).unwrap();
    let store = Arc::new(RwLock::new(VStore::new()));
    {
        let mut s = store.write().await;
        for (e, l) in sc.lucky.iter().enumerate() {
            let cfg = entity_config(sc, e as u64);
            s.markers.insert(
                Epoch(e as u64),
                MithrilNetworkConfigurationForEpoch {
                    protocol_parameters: params(*l),
                    enabled_signed_entity_types: cfg.allowed_discriminants,
                    signed_entity_types_config: SignedEntityTypeConfiguration {
                        cardano_transactions: cfg.cardano_transactions_signing_config,
                        cardano_blocks_transactions: None,
                    },
                },
            );
        }
        s.agg_epoch = sc.e0;
        // somebody else is always registered for the first epochs so that signer sets are never empty
        for r in 0..=sc.e0 + 1 {
            s.regs.entry(r).or_default().push(to_part(&ctx.signers[1]));
        }
    }
    set_shared_store(store.clone());
    let my_party = ctx.signers[0].party_id.clone();

    let (mut epoch, mut imm, mut block) = (sc.e0, 1u64, 100u64);
    let mut tester = init_tester(&work, ctx, &time_point(epoch, imm, block)).await;
    let mut out = RunOut { per_event: vec![], sigs: vec![], regs: vec![], marks: vec![], critical: None, n_epochs: 1, states: vec![], ticks: vec![], restarts: vec![] };
    let mut sent: BTreeMap<u64, SignerMessagePart> = BTreeMap::new();
    let (mut sig_seen, mut reg_seen) = (0usize, 0usize);

    for (i, ev) in sc.events.iter().enumerate() {
        match ev {
            Ev::Restart => {
                drop(tester);
                tester = init_tester(&work, ctx, &time_point(epoch, imm, block)).await;
                if imm > 1 {
                    tester.increase_immutable(imm - 1, imm).await.expect("restore immutable number");
                }
                let st = tester.verif_state().await;
                out.restarts.push(i);
                out.per_event.push(coq::ol(&[state_obs(&st), coq::ol(&[]), coq::ol(&[]), coq::ol(&[]), coq::ol(&[]),
                    coq::ol(&[coq::ol(&[]), coq::ol(&[])])]));
            }
            Ev::Tick(t) => {
                // chain progress
                while epoch < t.epoch {
                    epoch += 1;
                    out.n_epochs += 1;
                    tester.increase_epoch(epoch).await.expect("increase epoch");
                }
                if t.imm > imm {
                    tester.increase_immutable(t.imm - imm, t.imm).await.expect("increase immutable");
                    imm = t.imm;
                }
                if t.block > block {
                    tester
                        .increase_block_number_and_slot_number(t.block - block, SlotNumber(t.block), BlockNumber(t.block))
                        .await
                        .expect("increase block");
                    block = t.block;
                }
                // aggregator's view and fault modes for this tick
                {
                    let mut s = store.write().await;
                    s.agg_epoch = t.epoch - t.lag;
                    s.down = t.down;
                    s.reg_mode = t.reg;
                    s.pub_mode = t.pubm;
                    s.reg_fail_code = t.reg_fail_code;
                    s.pub_fail_code = t.pub_fail_code;
                    s.pub_ok_code = t.pub_ok_code;
                    let rec = s.agg_epoch + SPEC_RECORDING;
                    for &o in &t.others {
                        let part = to_part(&ctx.signers[o]);
                        let l = s.regs.entry(rec).or_default();
                        if !l.iter().any(|p| p.party_id == part.party_id) {
                            l.push(part);
                        }
                    }
                }
                let pre_state = tester.verif_state().await;
                if let Err(e) = tester.verif_cycle().await {
                    if e.is_critical() {
                        out.critical = Some(format!("critical error at event {i}: {e:?}"));
                    }
                }
                let post_state = tester.verif_state().await;
                out.states.push((i, post_state.clone()));
                // what the aggregator received during this tick
                let s = store.read().await;
                let mut sig_obs = vec![];
                for (m, mode) in &s.sig_log[sig_seen..] {
                    let entity = match &m.signed_entity_type {
                        SignedEntityTypeMessage::Known(e) => e.clone(),
                        #[allow(unreachable_patterns)]
                        _ => SignedEntityType::MithrilStakeDistribution(Epoch(u64::MAX)),
                    };
                    let key_epochs = identify_keys(ctx, &s, &sent, &sc.lucky, m);
                    let key_obs = match key_epochs.as_slice() {
                        [r] => coq::on(*r),
                        [] => coq::oz(-1),
                        _ => coq::oz(-2),
                    };
                    sig_obs.push(coq::ol(&[entity_obs(&entity), key_obs, coq::oz(pub_code(*mode))]));
                    out.sigs.push(SeenSig {
                        tick: i,
                        chain_epoch: epoch,
                        entity,
                        sig_hex: format!("{}|{:?}", m.signature, m.won_indexes),
                        mode: *mode,
                        key_epochs,
                        pre_state: pre_state.clone(),
                        post_state: post_state.clone(),
                    });
                }
                sig_seen = s.sig_log.len();
                let mut reg_obs = vec![];
                let mut req_obs = vec![];
                for (rec, part, mode) in &s.reg_log[reg_seen..] {
                    if part.party_id == my_party {
                        let seen = SeenReg { tick: i, chain_epoch: epoch, rec_epoch: *rec, mode: *mode,
                            vk: part.verification_key_for_concatenation.clone() };
                        if seen.acked() {
                            sent.insert(*rec, part.clone());
                            reg_obs.push(coq::on(*rec));
                        }
                        req_obs.push(coq::on(*rec));
                        req_obs.push(coq::oz(match mode {
                            RegMode::Open => 0,
                            RegMode::Closed => 1,
                            RegMode::Fail => 2,
                            RegMode::Drop => 3,
                            RegMode::Ambig => 4,
                        }));
                        out.regs.push(seen);
                    }
                }
                reg_seen = s.reg_log.len();
                let agg_holds: BTreeMap<u64, String> = s
                    .regs
                    .iter()
                    .filter_map(|(e, l)| {
                        l.iter().find(|p| p.party_id == my_party).map(|p| (*e, p.verification_key_for_concatenation.clone()))
                    })
                    .collect();
                drop(s);
                // the signer's protocol initializer store
                let stored: BTreeMap<u64, String> = tester
                    .verif_protocol_initializer_store()
                    .get_last_protocol_initializer(1000)
                    .await
                    .expect("protocol initializer store query")
                    .into_iter()
                    .map(|(e, init)| (*e, vk_hex(&init)))
                    .collect();
                let store_obs = coq::ol(&[
                    coq::ol(&(0..epoch + 3).map(|k| coq::ob(stored.contains_key(&k))).collect::<Vec<_>>()),
                    coq::ol(&(0..epoch + 3)
                        .map(|k| coq::ob(stored.get(&k).is_some_and(|vk| agg_holds.get(&k).is_some_and(|a| same_key(a, vk)))))
                        .collect::<Vec<_>>()),
                ]);
                out.ticks.push(TickRec {
                    i,
                    epoch,
                    imm,
                    block,
                    reg_good: t.lag == 0 && !t.down && t.reg == RegMode::Open,
                    pre: pre_state.clone(),
                    post: post_state.clone(),
                    stored,
                    agg_holds,
                });
                // which of this time point's entities are marked as signed
                // (under the configuration in force for the chain epoch: the one of epoch - 1)
                let config = entity_config(sc, epoch.saturating_sub(SPEC_RETRIEVAL_BACK));
                let mark_obs = match config.list_allowed_signed_entity_types(&time_point(epoch, imm, block)) {
                    Ok(entities) => {
                        let unsigned = tester
                            .verif_signed_beacon_repository()
                            .filter_out_already_signed_entities(entities.clone())
                            .await
                            .expect("signed beacon store query");
                        let mut v = vec![];
                        for e in entities {
                            let marked = !unsigned.contains(&e);
                            if marked {
                                out.marks.push((i, e.clone()));
                            }
                            v.push(coq::ob(marked));
                        }
                        coq::ol(&v)
                    }
                    Err(_) => coq::ol(&[]),
                };
                out.per_event.push(coq::ol(&[state_obs(&post_state), coq::ol(&sig_obs), coq::ol(&reg_obs), mark_obs,
                    coq::ol(&req_obs), store_obs]));
            }
        }
    }
    drop(tester);
    out
}

/// verification key of a stored protocol initializer, in the form registrations carry it
fn vk_hex(init: &ProtocolInitializer) -> String {
    let vk: ProtocolSignerVerificationKeyForConcatenation = init.verification_key_for_concatenation().into();
    vk.to_json_hex().unwrap_or_else(|e| format!("unencodable key: {e}"))
}
/// same verification key (compared as keys when both decode, else as text)
fn same_key(a: &str, b: &str) -> bool {
    let ka: Result<ProtocolSignerVerificationKeyForConcatenation, _> = a.to_string().try_into();
    let kb: Result<ProtocolSignerVerificationKeyForConcatenation, _> = b.to_string().try_into();
    match (ka, kb) {
        (Ok(x), Ok(y)) => x == y,
        _ => a == b,
    }
}

fn signing_epoch(e: &SignedEntityType) -> u64 {
    // spec: MSD(e), CDb(e, _), CTx(e, _) are signed during e; CSD(e) during e+1
    match e {
        SignedEntityType::CardanoStakeDistribution(e) => **e + 1,
        other => *other.get_epoch(),
    }
}

/// The property judged on what the aggregator received, from provenance only.
fn judge(sc: &Scenario, out: &RunOut) -> Result<(), String> {
    if let Some(c) = &out.critical {
        return Err(c.clone());
    }
    // (a) at most one distinct signature per (entity, beacon)
    let mut by_entity: BTreeMap<String, Vec<&SeenSig>> = BTreeMap::new();
    for s in &out.sigs {
        by_entity.entry(format!("{:?}", s.entity)).or_default().push(s);
    }
    for (e, v) in &by_entity {
        if v.iter().any(|s| s.sig_hex != v[0].sig_hex) {
            return Err(format!("two distinct signatures published for {e} (events {} and {})", v[0].tick,
                v.iter().find(|s| s.sig_hex != v[0].sig_hex).unwrap().tick));
        }
        // (e) once acknowledged (201 / 410) an entity is never sent again — also across restarts
        if let Some(p) = v.iter().position(|s| matches!(s.mode, PubMode::Ok | PubMode::Gone)) {
            if p + 1 != v.len() {
                return Err(format!("{e} published again at event {} after the aggregator acknowledged it at event {}",
                    v[p + 1].tick, v[p].tick));
            }
        }
    }
    for s in &out.sigs {
        let e_sign = signing_epoch(&s.entity);
        // (b) made with the key recorded for signing_epoch - 1, which is the signer set the
        //     aggregator has in force at signing_epoch: real verify_single_signature passed (identify_keys)
        let want = e_sign.checked_sub(SPEC_RETRIEVAL_BACK);
        if s.key_epochs.len() != 1 || Some(s.key_epochs[0]) != want {
            return Err(format!(
                "signature for {:?} (event {}) verifies under registrations recorded for epochs {:?}; the aggregator's signer set for epoch {} is the one recorded under {:?}",
                s.entity, s.tick, s.key_epochs, e_sign, want));
        }
        // beacons are signed during their own epoch
        if s.chain_epoch != e_sign {
            return Err(format!("{:?} published during epoch {} (event {})", s.entity, s.chain_epoch, s.tick));
        }
        // (c) the registration for that key reached the aggregator earlier, during epoch signing_epoch - 2
        match out.regs.iter().find(|r| r.acked() && r.rec_epoch == s.key_epochs[0]) {
            Some(r) if r.tick < s.tick && r.recorded() && r.chain_epoch + SPEC_SIGNING == e_sign => {}
            other => {
                return Err(format!(
                    "signature for {:?} at event {} without a prior recorded registration made during epoch {}: {:?}",
                    s.entity, s.tick, e_sign as i64 - SPEC_SIGNING as i64, other.map(|r| (r.tick, r.chain_epoch, r.rec_epoch, r.mode))));
            }
        }
        // (k) only entities of the current time point under the signed entity configuration in force for
        //     the epoch (the network configuration of epoch - 1): the aggregator opens no other message
        if let Some(t) = out.ticks.iter().find(|t| t.i == s.tick) {
            let config = entity_config(sc, t.epoch.saturating_sub(SPEC_RETRIEVAL_BACK));
            if let Ok(entities) = config.list_allowed_signed_entity_types(&time_point(t.epoch, t.imm, t.block)) {
                if !entities.contains(&s.entity) {
                    return Err(format!(
                        "signature published for {:?} (event {}), which is not an entity of the time point under the configuration in force for epoch {}: {:?}",
                        s.entity, s.tick, t.epoch, entities));
                }
            }
        }
        // (d) only from ReadyToSign(current epoch), staying there
        let ready = SignerState::ReadyToSign { epoch: Epoch(s.chain_epoch) };
        if s.pre_state != ready || s.post_state != ready {
            return Err(format!("signature for {:?} published while moving {} -> {} (event {})", s.entity, s.pre_state, s.post_state, s.tick));
        }
    }
    // (f) marked as signed only after an acknowledged publication, or when the lottery was lost
    for (i, e) in &out.marks {
        let acked = out.sigs.iter().any(|s| &s.entity == e && s.tick <= *i && matches!(s.mode, PubMode::Ok | PubMode::Gone));
        let key = signing_epoch(e).saturating_sub(SPEC_RETRIEVAL_BACK);
        let lost = !sc.lucky[key as usize];
        if !acked && !lost {
            return Err(format!("{e:?} is marked as signed after event {i} but the aggregator never acknowledged a signature for it"));
        }
    }
    // (g) ReadyToSign(e) only with a registration the aggregator recorded for e-1, made during e-2
    for (i, st) in &out.states {
        if let SignerState::ReadyToSign { epoch } = st {
            let ok = out.regs.iter().any(|r| {
                r.tick < *i && r.recorded() && r.rec_epoch + SPEC_RETRIEVAL_BACK == **epoch && r.chain_epoch + SPEC_SIGNING == **epoch
            });
            if !ok {
                return Err(format!("ReadyToSign({}) after event {i} although no registration made during epoch {} was recorded by the aggregator",
                    **epoch, **epoch as i64 - SPEC_SIGNING as i64));
            }
        }
    }
    // registrations are recorded one epoch ahead of the epoch they are made in
    for r in &out.regs {
        if r.rec_epoch != r.chain_epoch + SPEC_RECORDING {
            return Err(format!("registration sent during epoch {} for recording epoch {} (event {})", r.chain_epoch, r.rec_epoch, r.tick));
        }
    }
    // (j) at most one acknowledged registration per recording epoch: the key material of an epoch is
    //     registered once (a second acknowledged request would replace the key other parties already use)
    for (n, r) in out.regs.iter().enumerate() {
        if r.acked() {
            if let Some(q) = out.regs[..n].iter().find(|q| q.acked() && q.rec_epoch == r.rec_epoch) {
                return Err(format!("two acknowledged registrations for recording epoch {} (events {} and {})", r.rec_epoch, q.tick, r.tick));
            }
        }
    }
    let acked_reg = |rec: u64, upto: usize| out.regs.iter().find(|r| r.acked() && r.rec_epoch == rec && r.tick <= upto);
    for (n, t) in out.ticks.iter().enumerate() {
        // (h) key agreement: every protocol initializer the signer has stored is the key of a registration
        //     the aggregator acknowledged for that epoch; unless the aggregator lost it (Drop: environment
        //     fault), it is the registration the aggregator holds for our party
        for (k, vk) in &t.stored {
            match acked_reg(*k, t.i) {
                Some(r) if same_key(&r.vk, vk) => {
                    if r.recorded() && !t.agg_holds.get(k).is_some_and(|a| same_key(a, vk)) {
                        return Err(format!(
                            "after event {}: the aggregator recorded our registration for epoch {k} (event {}) but now holds {} for our party",
                            t.i, r.tick, if t.agg_holds.contains_key(k) { "another key" } else { "nothing" }));
                    }
                }
                Some(r) => {
                    return Err(format!(
                        "after event {}: the key stored for epoch {k} is not the key of the registration the aggregator acknowledged for that epoch (event {})",
                        t.i, r.tick));
                }
                None => {
                    return Err(format!(
                        "after event {}: the signer stores key material for epoch {k} (state {}) although the aggregator never acknowledged a registration for that epoch",
                        t.i, t.post));
                }
            }
        }
        // ... and a signer that left the unregistered state for epoch E holds key material for E+1
        let registered_now = t.post == SignerState::ReadyToSign { epoch: Epoch(t.epoch) }
            || t.post == SignerState::RegisteredNotAbleToSign { epoch: Epoch(t.epoch) };
        if (matches!(t.post, SignerState::ReadyToSign { .. }) || matches!(t.post, SignerState::RegisteredNotAbleToSign { .. }))
            && t.pre != t.post
        {
            let e = match &t.post {
                SignerState::ReadyToSign { epoch } | SignerState::RegisteredNotAbleToSign { epoch } => **epoch,
                _ => unreachable!(),
            };
            if !t.stored.contains_key(&(e + SPEC_RECORDING)) {
                return Err(format!("event {}: the signer left the unregistered state ({}) without key material for epoch {}", t.i, t.post, e + SPEC_RECORDING));
            }
        }
        // (i) registration progress.  A cycle is "good" when the aggregator is reachable, up to date and
        //     its registration round is open.  (i1) a good cycle started in Unregistered(E) during epoch E,
        //     (i2) the second of two consecutive good cycles of epoch E without a restart in between:
        //     the signer is registered for E afterwards — the aggregator holds (or acknowledged and lost)
        //     its registration for E+1 — and it is ReadyToSign(E) exactly when the aggregator recorded its
        //     registration for E-1
        let unreg_here = t.pre == SignerState::Unregistered { epoch: Epoch(t.epoch) };
        let second_good = n > 0 && {
            let p = &out.ticks[n - 1];
            p.reg_good && p.epoch == t.epoch && !out.restarts.iter().any(|r| *r > p.i && *r < t.i)
        };
        if t.reg_good && (unreg_here || second_good) {
            let why = if unreg_here { "a cycle started in Unregistered with the registration round open" } else { "two consecutive cycles with the registration round open" };
            if !registered_now {
                return Err(format!("event {}: after {why} during epoch {} the signer is in state {}", t.i, t.epoch, t.post));
            }
            match acked_reg(t.epoch + SPEC_RECORDING, t.i) {
                None => {
                    return Err(format!(
                        "event {}: after {why} during epoch {} the signer is in state {} but the aggregator never acknowledged a registration of it for epoch {}",
                        t.i, t.epoch, t.post, t.epoch + SPEC_RECORDING));
                }
                Some(r) if r.recorded() && !t.agg_holds.contains_key(&r.rec_epoch) => {
                    return Err(format!("event {}: the aggregator does not hold the registration it recorded at event {}", t.i, r.tick));
                }
                _ => {}
            }
            let eligible = t.epoch >= SPEC_RETRIEVAL_BACK
                && out.regs.iter().any(|r| r.recorded() && r.tick < t.i && r.rec_epoch + SPEC_RETRIEVAL_BACK == t.epoch);
            let ready = t.post == SignerState::ReadyToSign { epoch: Epoch(t.epoch) };
            if eligible && !ready {
                return Err(format!(
                    "event {}: the aggregator recorded our registration for epoch {} (signer set in force during epoch {}) but after {why} the signer is {}",
                    t.i, t.epoch - SPEC_RETRIEVAL_BACK, t.epoch, t.post));
            }
        }
        // (i3) signing progress: a cycle started in ReadyToSign(E) during epoch E, by a signer that also
        //      registered during E-1 (key material acknowledged for E) and whose lottery is won, publishes
        //      the first entity of the time point (configuration of epoch E-1) the aggregator has not
        //      acknowledged yet
        if t.pre == (SignerState::ReadyToSign { epoch: Epoch(t.epoch) })
            && t.epoch >= SPEC_RETRIEVAL_BACK
            && sc.lucky[(t.epoch - SPEC_RETRIEVAL_BACK) as usize]
            && out.regs.iter().any(|r| r.acked() && r.tick < t.i && r.rec_epoch == t.epoch)
        {
            let config = entity_config(sc, t.epoch - SPEC_RETRIEVAL_BACK);
            if let Ok(entities) = config.list_allowed_signed_entity_types(&time_point(t.epoch, t.imm, t.block)) {
                let pending = entities.iter().find(|e| {
                    !out.sigs.iter().any(|s| &s.entity == *e && s.tick < t.i && matches!(s.mode, PubMode::Ok | PubMode::Gone))
                });
                if let Some(x) = pending {
                    if !out.sigs.iter().any(|s| s.tick == t.i && &s.entity == x) {
                        return Err(format!(
                            "event {}: ReadyToSign({}) with registered keys and a won lottery, {x:?} not yet acknowledged by the aggregator, but no signature for it was published in this cycle",
                            t.i, t.epoch));
                    }
                }
            }
        }
    }
    Ok(())
}

fn coq_event(ev: &Ev) -> String {
    match ev {
        Ev::Restart => "R".into(),
        Ev::Tick(t) => format!(
            "T {} {} {} {} {} {} {}",
            coq::n(t.epoch),
            coq::n(t.imm),
            coq::n(t.block),
            coq::n(t.lag),
            coq::b(t.down),
            match t.reg {
                RegMode::Open => "RegOpen",
                RegMode::Closed => "RegClosed",
                RegMode::Fail => "RegFail",
                RegMode::Drop => "RegDrop",
                RegMode::Ambig => "RegAmbig",
            },
            match t.pubm {
                PubMode::Ok => "PubOk",
                PubMode::Clean => "PubClean",
                PubMode::Ambig => "PubAmbig",
                PubMode::Gone => "PubGone",
            }
        ),
    }
}

fn desc_event(ev: &Ev) -> serde_json::Value {
    match ev {
        Ev::Restart => serde_json::json!("restart"),
        Ev::Tick(t) => serde_json::json!({
            "epoch": t.epoch, "imm": t.imm, "block": t.block, "agg_lag": t.lag, "down": t.down,
            "reg": format!("{:?}", t.reg), "pub": format!("{:?}", t.pubm), "others": t.others,
            "codes": [t.reg_fail_code, t.pub_fail_code, t.pub_ok_code]
        }),
    }
}

fn main() {
    let args = hc::parse_args();
    let mut rng = Rng::new(args.seed);
    let mut sink = Sink::new(&args);
    let mut n_runs = if args.thorough { 320 } else { 36 };
    if let Some(p) = args.extra.iter().position(|a| a == "--runs") {
        n_runs = args.extra[p + 1].parse().expect("--runs N");
    }
    let work_root = PathBuf::from(std::env::var("VERIF_WORK").unwrap_or_else(|_| ".".into()));

    let fixture = MithrilFixtureBuilder::default()
        .with_signers(4)
        .with_protocol_parameters(params(true))
        .build();
    let signers = fixture.signers_with_stake();
    let stakes = signers.iter().map(|s| (s.party_id.clone(), s.stake)).collect();
    let ctx = Ctx { signers, stakes };

    let rt = tokio::runtime::Builder::new_multi_thread()
        .worker_threads(2)
        .enable_all()
        .build()
        .unwrap();

    for run in 0..n_runs {
        let mut r = rng.fork();
        let sc = gen_scenario(&mut r, ctx.signers.len(), args.thorough);
        let Some(id) = sink.wants() else { continue };
        let out = rt.block_on(run_impl(&ctx, &sc, work_root.join(format!("c20_run_{run}"))));
        let verdict = judge(&sc, &out);
        let n_sigs = out.sigs.len();
        let _ = std::fs::remove_dir_all(work_root.join(format!("c20_run_{run}")));
        sink.push(Case {
            id,
            kind: sc.kind.clone(),
            desc: serde_json::json!({
                "initial_epoch": sc.e0,
                "cardano_transactions_step_by_config_epoch": sc.cfgs.iter().take(20).collect::<Vec<_>>(),
                "lucky_by_key_epoch": sc.lucky.iter().take(16).collect::<Vec<_>>(),
                "events": sc.events.iter().map(desc_event).collect::<Vec<_>>(),
                "signatures_received": out.sigs.iter().map(|s| serde_json::json!({
                    "event": s.tick, "entity": format!("{:?}", s.entity), "key_recorded_under": s.key_epochs, "mode": format!("{:?}", s.mode)})).collect::<Vec<_>>(),
            }),
            model: Some(format!(
                "let off := ([MSD; CSD; CDb], @None (prod N N)) in let on_ s := ([MSD; CSD; CDb; CTx], Some (0%N, s)) in C20.Model.run_obs {} {} {}",
                coq::list(&sc.cfgs.iter().map(|c| match c {
                    None => "off".to_string(),
                    Some(st) => format!("(on_ {})", coq::n(*st)),
                }).collect::<Vec<_>>()),
                coq::list(&sc.lucky.iter().map(|b| coq::b(*b)).collect::<Vec<_>>()),
                coq::list(&sc.events.iter().map(|e| format!("({})", coq_event(e))).collect::<Vec<_>>())
            )),
            impl_obs: coq::ol(&out.per_event),
            holds: Some(verdict.is_ok()),
            why: verdict.err(),
            known: None,
            nontrivial: out.n_epochs >= 4 && n_sigs >= 2,
            key: format!("{}/{:?}", sc.e0, sc.events.iter().map(coq_event).collect::<Vec<_>>()),
        });
    }
    sink.finish();
}
