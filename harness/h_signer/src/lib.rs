//! harness crate h_signer (binaries in src/bin)
