//! C01 correspondence harness: multi-signature soundness.
//!
//! Real registrations of 1-8 parties (equal / skewed 1:10^6 / single dominant stake), m <= 16,
//! small k, phi_f high enough for lotteries to be won; honest aggregates from the real `Clerk`;
//! structural mutations applied to the JSON (serde) form of the aggregate and of the verifier's
//! inputs; decoding through JSON, CBOR bytes and harness-written legacy bytes; verification by
//! `AggregateSignature::verify` and `AggregateSignature::batch_verify` (batches of 0-4).
//! Observation: 0 accept / 1 reject / 2 panic.
//! `holds`: acceptance implies (i)-(vi) of the property, evaluated from provenance (which party
//! made which sigma on which message under which registration; the committed leaves; the
//! lottery recomputed on the independently hashed draw).  Independent of the Coq model.
#[path = "../stmw.rs"]
mod stmw;

// The REAL source of `BlsSignature::aggregate`, compiled here from /repo's files: the module is private
// to mithril-stm (its `benchmark-internals` re-export does not build without `future_snark`), so the
// directory is included with `#[path]` under the same module path, with the two crate-root aliases its
// files import. Whatever is in signature.rs of the tree under check is what runs.
pub type StmResult<T> = anyhow::Result<T>;
pub type LotteryIndex = u64;
#[allow(dead_code, unused_imports, clippy::all)]
mod signature_scheme {
    #[path = "/repo/mithril-stm/src/signature_scheme/bls_multi_signature/mod.rs"]
    mod bls_multi_signature;
    pub use bls_multi_signature::*;
}

/// the real `BlsSignature::aggregate` on byte forms: (aggregate vk bytes, aggregate sigma bytes)
fn real_aggregate(vks: &[Vec<u8>], sigmas: &[Vec<u8>]) -> Option<(Vec<u8>, Vec<u8>)> {
    use signature_scheme::{BlsSignature, BlsVerificationKey};
    let v: Vec<BlsVerificationKey> = vks.iter().map(|b| BlsVerificationKey::from_bytes(b).ok()).collect::<Option<_>>()?;
    let s: Vec<BlsSignature> = sigmas.iter().map(|b| BlsSignature::from_bytes(b).ok()).collect::<Option<_>>()?;
    let (avk, asig) = BlsSignature::aggregate(&v, &s).ok()?;
    Some((avk.to_bytes().to_vec(), asig.to_bytes().to_vec()))
}

use hc::{coq, Case, Rng, Sink};
use mithril_stm::{AggregateSignature, AggregateVerificationKey, Parameters};
use serde_json::json;
use std::collections::HashMap;
use stmw::*;

#[derive(Clone, Debug, PartialEq)]
enum Spec {
    /// signature of pool key `pi` on `msg` under the registration with this root / these leaves
    Of { pi: usize, msg: Vec<u8>, root: Vec<u8>, leaves: String },
}

#[derive(Default)]
struct Book {
    by: HashMap<Vec<u8>, Spec>,
}
impl Book {
    fn learn(&mut self, w: &World, msg: &[u8], pi: usize, sigma: &[u8]) {
        self.by.insert(
            sigma.to_vec(),
            Spec::Of { pi, msg: msg.to_vec(), root: w.root.clone(), leaves: w.coq_leaves() },
        );
    }
}

/// one verification: the verifier's inputs
#[derive(Clone)]
struct Mb<'a> {
    w: &'a World,
    params: Parameters,
    msg: Vec<u8>,
    ag: Ag,
}

fn decode(ag: &Ag, enc: u64) -> Option<AggregateSignature<D>> {
    let a = ag.real()?;
    match enc {
        0 => Some(a),
        1 => {
            let b = a.to_bytes().ok()?;
            AggregateSignature::<D>::from_bytes(&b).ok()
        }
        _ => AggregateSignature::<D>::from_bytes(&ag.legacy_bytes()).ok(),
    }
}

/// 0 accept, 1 reject, 2 panic; None: the value does not decode (cannot be put on the wire)
fn observe(mb: &Mb, enc: u64) -> Option<u8> {
    let a = decode(&mb.ag, enc)?;
    let avk: AggregateVerificationKey<D> = mb.w.avk.clone();
    let (msg, params) = (mb.msg.clone(), mb.params);
    Some(match hc::catch(move || a.verify(&msg, &avk, &params, None, None).is_ok()) {
        Some(true) => 0,
        Some(false) => 1,
        None => 2,
    })
}

fn observe_batch(mbs: &[Mb], enc: u64) -> Option<u8> {
    let mut aggs = vec![];
    for mb in mbs {
        aggs.push(decode(&mb.ag, enc)?);
    }
    let msgs: Vec<Vec<u8>> = mbs.iter().map(|m| m.msg.clone()).collect();
    let avks: Vec<AggregateVerificationKey<D>> = mbs.iter().map(|m| m.w.avk.clone()).collect();
    let params: Vec<Parameters> = mbs.iter().map(|m| m.params).collect();
    let n = mbs.len();
    Some(
        match hc::catch(move || {
            AggregateSignature::<D>::batch_verify(&aggs, &msgs, &avks, &params, &vec![None; n], &vec![None; n]).is_ok()
        }) {
            Some(true) => 0,
            Some(false) => 1,
            None => 2,
        },
    )
}

/// (i)-(vi) judged from provenance for an ACCEPTED aggregate
fn judge(mb: &Mb, pool: &Pool, book: &Book) -> Result<(), String> {
    let (w, ag, p) = (mb.w, &mb.ag, mb.params);
    let all: Vec<u64> = ag.sigs.iter().flat_map(|s| s.idx.iter().copied()).collect();
    if (all.len() as u128) < p.k as u128 {
        return Err(format!("(i) accepted with {} indices, k = {}", all.len(), p.k));
    }
    let mut sorted = all.clone();
    sorted.sort_unstable();
    if sorted.windows(2).any(|x| x[0] == x[1]) {
        return Err("(ii) accepted with a repeated lottery index".into());
    }
    if let Some(i) = all.iter().find(|i| **i >= p.m) {
        return Err(format!("(iii) accepted with index {} >= m = {}", i, p.m));
    }
    if ag.pidx.len() != ag.sigs.len() {
        return Err("(v) accepted with a batch path that does not name one leaf per signature".into());
    }
    let msgp = w.msgp(&mb.msg);
    for (j, s) in ag.sigs.iter().enumerate() {
        // (v) the claimed (vk, stake) is the committed leaf at the stated position
        let pos = ag.pidx[j];
        let mut claimed = s.vk.clone();
        claimed.extend_from_slice(&s.stake.to_be_bytes());
        if pos >= w.n() as u64 || w.leaf_bytes[pos as usize] != claimed {
            return Err(format!("(v) signature {} claims (key {:?}, stake {}) which is not the committed leaf at position {}", j, pool.id_of(&s.vk), s.stake, pos));
        }
        // (iv) every index is won by (sigma, committed stake) for msg||root under the total stake
        for &i in &s.idx {
            if !won(p.phi_f, &msgp, i, &s.sigma, w.leaves[pos as usize].1, w.total) {
                return Err(format!("(iv) signature {}: index {} is not won", j, i));
            }
        }
        // (vi) sigma is the signature of that key on msg||root (BLS signatures are unique)
        let pi = w.leaves[pos as usize].0;
        match book.by.get(&s.sigma) {
            Some(Spec::Of { pi: q, msg, root, .. }) if *q == pi && *msg == mb.msg && *root == w.root => {}
            other => return Err(format!("(vi) signature {}: sigma is not key {}'s signature of this message under this registration (it is {:?})", j, pi + 1, other.map(|s| match s { Spec::Of { pi, msg, .. } => (pi + 1, msg.clone()) }))),
        }
    }
    Ok(())
}

struct Names {
    sigmas: Vec<Vec<u8>>,
    junk: Vec<Vec<u8>>,
}

/// Coq term `MB ...` of C01.Model for one verification
fn model_member(mb: &Mb, pool: &Pool, book: &Book) -> String {
    let (w, ag, p) = (mb.w, &mb.ag, mb.params);
    let mut nm = Names { sigmas: vec![], junk: vec![] };
    let mut sig_no = |b: &Vec<u8>| -> u64 {
        match nm.sigmas.iter().position(|x| x == b) {
            Some(p) => p as u64,
            None => {
                nm.sigmas.push(b.clone());
                nm.sigmas.len() as u64 - 1
            }
        }
    };
    let msgp = w.msgp(&mb.msg);
    let mut sigs = vec![];
    let mut wins: Vec<(u64, u64, u64)> = vec![];
    for s in &ag.sigs {
        let sn = sig_no(&s.sigma);
        let vk = pool.id_of(&s.vk).unwrap_or(999);
        sigs.push(format!("({}, {}, {}, {}, {})", coq::n(sn), coq::list_n(&s.idx), coq::n(s.slot), coq::n(vk), coq::n(s.stake)));
        for &i in &s.idx {
            if i < p.m && won(p.phi_f, &msgp, i, &s.sigma, s.stake, w.total) && !wins.contains(&(sn, i, s.stake)) {
                wins.push((sn, i, s.stake));
            }
        }
    }
    let sigmas: Vec<String> = nm
        .sigmas
        .iter()
        .enumerate()
        .map(|(k, b)| match book.by.get(b) {
            Some(Spec::Of { pi, msg, leaves, .. }) => format!("GOf {} {} {}", coq::n(*pi as u64 + 1), coq::bytes(msg), leaves),
            None => format!("GJunk {}", coq::n(k as u64)),
        })
        .collect();
    let pad = h32(&[&[0u8]]);
    let vals: Vec<String> = ag
        .vals
        .iter()
        .map(|v| {
            if let Some(p) = w.pos_of.get(v) {
                format!("SN {}", coq::n(*p))
            } else if *v == pad {
                "SLf [0%N]".to_string()
            } else {
                let k = match nm.junk.iter().position(|x| x == v) {
                    Some(k) => k,
                    None => {
                        nm.junk.push(v.clone());
                        nm.junk.len() - 1
                    }
                };
                format!("SJunk {}", coq::n(k as u64))
            }
        })
        .collect();
    format!(
        "MB {} {} {} {} {} {} {} {} {} {} {}",
        w.coq_leaves(),
        coq::n(w.n() as u64),
        coq::n(w.total),
        coq::n(p.m),
        coq::n(p.k),
        coq::bytes(&mb.msg),
        coq::list(&sigmas.iter().map(|s| format!("({})", s)).collect::<Vec<_>>()),
        coq::list(&sigs),
        coq::list(&vals.iter().map(|s| format!("({})", s)).collect::<Vec<_>>()),
        coq::list_n(&ag.pidx),
        coq::list(&wins.iter().map(|(a, b, c)| format!("({}, {}, {})", coq::n(*a), coq::n(*b), coq::n(*c))).collect::<Vec<_>>()),
    )
}

fn desc_member(mb: &Mb, pool: &Pool) -> serde_json::Value {
    json!({
        "registration": mb.w.leaves.iter().map(|(pi, st)| json!({"key": pi + 1, "stake": st})).collect::<Vec<_>>(),
        "m": mb.params.m, "k": mb.params.k, "phi_f": mb.params.phi_f, "msg": hexs(&mb.msg),
        "signatures": mb.ag.sigs.iter().map(|s| json!({"sigma": hexs(&s.sigma[..6]), "indexes": s.idx, "signer_index": s.slot,
            "claimed_key": pool.id_of(&s.vk), "claimed_stake": s.stake})).collect::<Vec<_>>(),
        "path_values": mb.ag.vals.iter().map(|v| hexs(&v[..v.len().min(6)])).collect::<Vec<_>>(),
        "path_indices": mb.ag.pidx,
    })
}

// ------------------------------------------------------------------ mutations

const ENC: [&str; 3] = ["json", "json+cbor-bytes", "legacy-bytes"];
const KINDS: &[&str] = &[
    "honest", "add-index", "drop-index", "dup-index-same-sig", "dup-index-other-sig", "index-boundary",
    "move-index", "slots", "claimed-stake", "claimed-key", "swap-sigma", "foreign-sigma", "path-values",
    "path-indices", "reorder-sigs", "remove-entry", "dup-entry", "verifier-k", "verifier-m", "other-avk",
    "other-msg", "exactly-k-1", "stake-inflation", "empty", "index-m-regression", "double",
];

struct Ctx<'a> {
    pool: &'a Pool,
    w: &'a World,
    other: &'a World,
    msg: Vec<u8>,
    msg_b: Vec<u8>,
    /// sigmas of the world's parties on msg_b, and of `other`'s parties on msg: (vk bytes, sigma)
    spare: Vec<Vec<u8>>,
}

fn pick_sig(rng: &mut Rng, ag: &Ag) -> usize {
    rng.below(ag.sigs.len().max(1) as u64) as usize
}

/// apply mutation `kind` to the verifier's inputs; returns the label of the variant chosen
fn mutate<'a>(rng: &mut Rng, cx: &Ctx<'a>, mb: &mut Mb<'a>, kind: &str) -> String {
    let m = mb.params.m;
    let ns = mb.ag.sigs.len();
    let all: Vec<u64> = mb.ag.sigs.iter().flat_map(|s| s.idx.iter().copied()).collect();
    let v = rng.next();
    match kind {
        "honest" => "honest".into(),
        "add-index" => {
            let j = pick_sig(rng, &mb.ag);
            let free: Vec<u64> = (0..m).filter(|i| !all.contains(i)).collect();
            if free.is_empty() || ns == 0 {
                return "add-index:none-free".into();
            }
            let i = *rng.pick(&free);
            let at = rng.below(mb.ag.sigs[j].idx.len() as u64 + 1) as usize;
            mb.ag.sigs[j].idx.insert(at, i);
            format!("add-index:{}", i)
        }
        "drop-index" => {
            let j = pick_sig(rng, &mb.ag);
            if ns == 0 || mb.ag.sigs[j].idx.is_empty() {
                return "drop-index:nothing".into();
            }
            let at = rng.below(mb.ag.sigs[j].idx.len() as u64) as usize;
            mb.ag.sigs[j].idx.remove(at);
            "drop-index".into()
        }
        "dup-index-same-sig" => {
            let j = pick_sig(rng, &mb.ag);
            if ns == 0 || mb.ag.sigs[j].idx.is_empty() {
                return "dup-index-same-sig:nothing".into();
            }
            let i = *rng.pick(&mb.ag.sigs[j].idx);
            mb.ag.sigs[j].idx.push(i);
            "dup-index-same-sig".into()
        }
        "dup-index-other-sig" | "move-index" => {
            if ns < 2 {
                return format!("{}:single-signature", kind);
            }
            let a = pick_sig(rng, &mb.ag);
            let b = (a + 1 + rng.below(ns as u64 - 1) as usize) % ns;
            if mb.ag.sigs[a].idx.is_empty() {
                return format!("{}:nothing", kind);
            }
            let at = rng.below(mb.ag.sigs[a].idx.len() as u64) as usize;
            let i = mb.ag.sigs[a].idx[at];
            if kind == "move-index" {
                mb.ag.sigs[a].idx.remove(at);
            }
            mb.ag.sigs[b].idx.push(i);
            kind.into()
        }
        "index-boundary" => {
            if ns == 0 {
                return "index-boundary:nothing".into();
            }
            let j = pick_sig(rng, &mb.ag);
            let val = [m.wrapping_sub(1), m, m.wrapping_add(1), u64::MAX, m + 7][(v % 5) as usize];
            if (v >> 8) & 1 == 0 || mb.ag.sigs[j].idx.is_empty() {
                mb.ag.sigs[j].idx.push(val);
                format!("index-boundary:append-{}", if val == u64::MAX { "max".to_string() } else { format!("m{:+}", val as i128 - m as i128) })
            } else {
                let at = rng.below(mb.ag.sigs[j].idx.len() as u64) as usize;
                mb.ag.sigs[j].idx[at] = val;
                format!("index-boundary:replace-{}", if val == u64::MAX { "max".to_string() } else { format!("m{:+}", val as i128 - m as i128) })
            }
        }
        "index-m-regression" => {
            // the fixed defect: an index equal to m (verifier's k raised so that it is needed)
            if ns == 0 {
                return "index-m-regression:nothing".into();
            }
            let j = pick_sig(rng, &mb.ag);
            mb.ag.sigs[j].idx.push(m);
            mb.params.k = all.len() as u64 + 1;
            "index-m-regression".into()
        }
        "slots" => {
            if ns == 0 {
                return "slots:nothing".into();
            }
            match v % 3 {
                0 if ns >= 2 => {
                    let t = mb.ag.sigs[0].slot;
                    mb.ag.sigs[0].slot = mb.ag.sigs[ns - 1].slot;
                    mb.ag.sigs[ns - 1].slot = t;
                    "slots:swap".into()
                }
                1 => {
                    let j = pick_sig(rng, &mb.ag);
                    mb.ag.sigs[j].slot = u64::MAX;
                    "slots:max".into()
                }
                _ => {
                    let j = pick_sig(rng, &mb.ag);
                    mb.ag.sigs[j].slot = rng.below(10);
                    "slots:random".into()
                }
            }
        }
        "claimed-stake" => {
            if ns == 0 {
                return "claimed-stake:nothing".into();
            }
            let j = pick_sig(rng, &mb.ag);
            let s = mb.ag.sigs[j].stake;
            let other = cx.w.leaves[rng.below(cx.w.n() as u64) as usize].1;
            // claimed stakes stay <= total: stake/total >> 1 is outside the lottery's domain (C08) and
            // makes the Taylor loop of the real code run for minutes
            let tot = cx.w.total;
            let (nv, l) = match v % 6 {
                0 => ((s + 1).min(tot), "+1"),
                1 => (s.wrapping_sub(1).min(tot), "-1"),
                2 => (s.saturating_mul(2).min(tot), "x2"),
                3 => (other, "another-party"),
                4 => (0, "zero"),
                _ => (tot, "total"),
            };
            mb.ag.sigs[j].stake = nv;
            format!("claimed-stake:{}", l)
        }
        "stake-inflation" => {
            // claim the whole stake and add every index newly won with it: the lottery passes, only the
            // Merkle membership of (vk, claimed stake) stands in the way
            if ns == 0 {
                return "stake-inflation:nothing".into();
            }
            let j = pick_sig(rng, &mb.ag);
            let ns_ = cx.w.total;
            mb.ag.sigs[j].stake = ns_;
            let msgp = cx.w.msgp(&mb.msg);
            let sigma = mb.ag.sigs[j].sigma.clone();
            let keep: Vec<u64> = mb.ag.sigs[j].idx.iter().copied().filter(|i| won(mb.params.phi_f, &msgp, *i, &sigma, ns_, cx.w.total)).collect();
            let mut idx = keep;
            for i in 0..m {
                if !all.contains(&i) && won(mb.params.phi_f, &msgp, i, &sigma, ns_, cx.w.total) {
                    idx.push(i);
                }
            }
            mb.ag.sigs[j].idx = idx;
            "stake-inflation".into()
        }
        "claimed-key" => {
            if ns == 0 {
                return "claimed-key:nothing".into();
            }
            let j = pick_sig(rng, &mb.ag);
            if v & 1 == 0 {
                let (pi, _) = cx.w.leaves[rng.below(cx.w.n() as u64) as usize];
                mb.ag.sigs[j].vk = cx.pool.vk[pi].clone();
                "claimed-key:registered".into()
            } else {
                let outside: Vec<usize> = (0..cx.pool.vk.len()).filter(|p| cx.w.pos_of_key(*p).is_none()).collect();
                let pi = *rng.pick(&outside);
                mb.ag.sigs[j].vk = cx.pool.vk[pi].clone();
                "claimed-key:unregistered".into()
            }
        }
        "swap-sigma" => {
            if ns < 2 {
                return "swap-sigma:single-signature".into();
            }
            let a = pick_sig(rng, &mb.ag);
            let b = (a + 1 + rng.below(ns as u64 - 1) as usize) % ns;
            let t = mb.ag.sigs[a].sigma.clone();
            mb.ag.sigs[a].sigma = mb.ag.sigs[b].sigma.clone();
            mb.ag.sigs[b].sigma = t;
            "swap-sigma".into()
        }
        "foreign-sigma" => {
            if ns == 0 || cx.spare.is_empty() {
                return "foreign-sigma:nothing".into();
            }
            let j = pick_sig(rng, &mb.ag);
            mb.ag.sigs[j].sigma = rng.pick(&cx.spare).clone();
            "foreign-sigma".into()
        }
        "path-values" => {
            let nv = mb.ag.vals.len();
            let junk = rng.bytes(32);
            match v % 6 {
                0 if nv > 0 => {
                    let at = rng.below(nv as u64) as usize;
                    mb.ag.vals[at] = junk;
                    "path-values:alter".into()
                }
                1 if nv > 0 => {
                    let at = rng.below(nv as u64) as usize;
                    mb.ag.vals.remove(at);
                    "path-values:drop".into()
                }
                2 if nv > 0 => {
                    let at = rng.below(nv as u64) as usize;
                    let x = mb.ag.vals[at].clone();
                    mb.ag.vals.insert(at, x);
                    "path-values:duplicate".into()
                }
                3 if nv > 1 => {
                    mb.ag.vals.swap(0, nv - 1);
                    "path-values:swap".into()
                }
                4 => {
                    mb.ag.vals.push(junk);
                    "path-values:append-unread".into()
                }
                _ => {
                    mb.ag.vals.insert(0, junk);
                    "path-values:prepend".into()
                }
            }
        }
        "path-indices" => {
            let np = mb.ag.pidx.len();
            if np == 0 {
                mb.ag.pidx.push(0);
                return "path-indices:extra".into();
            }
            let at = rng.below(np as u64) as usize;
            let n = cx.w.n() as u64;
            match v % 8 {
                0 if np > 1 => {
                    mb.ag.pidx.swap(0, np - 1);
                    "path-indices:unsorted".into()
                }
                1 => {
                    mb.ag.pidx[np - 1] = n;
                    "path-indices:out-of-range-n".into()
                }
                2 => {
                    mb.ag.pidx[np - 1] = n + 1 + rng.below(5);
                    "path-indices:out-of-range".into()
                }
                3 => {
                    mb.ag.pidx[np - 1] = u64::MAX;
                    "path-indices:usize-max".into()
                }
                4 => {
                    mb.ag.pidx.remove(at);
                    "path-indices:drop".into()
                }
                5 => {
                    let x = mb.ag.pidx[at];
                    mb.ag.pidx.insert(at, x);
                    "path-indices:duplicate".into()
                }
                6 => {
                    mb.ag.pidx[np - 1] = u64::MAX / 2 + rng.below(3);
                    "path-indices:half-max".into()
                }
                _ => {
                    mb.ag.pidx[at] = rng.below(n);
                    "path-indices:retarget".into()
                }
            }
        }
        "reorder-sigs" => {
            if ns < 2 {
                return "reorder-sigs:single-signature".into();
            }
            mb.ag.sigs.swap(0, ns - 1);
            if v & 1 == 0 && mb.ag.pidx.len() == ns {
                mb.ag.pidx.swap(0, ns - 1);
                "reorder-sigs:with-path-indices".into()
            } else {
                "reorder-sigs:entries-only".into()
            }
        }
        "remove-entry" => {
            if ns == 0 {
                return "remove-entry:nothing".into();
            }
            let j = pick_sig(rng, &mb.ag);
            mb.ag.sigs.remove(j);
            if v & 1 == 0 && j < mb.ag.pidx.len() {
                mb.ag.pidx.remove(j);
                "remove-entry:with-path-index".into()
            } else {
                "remove-entry:entry-only".into()
            }
        }
        "dup-entry" => {
            if ns == 0 {
                return "dup-entry:nothing".into();
            }
            let j = pick_sig(rng, &mb.ag);
            let e = mb.ag.sigs[j].clone();
            mb.ag.sigs.insert(j, e);
            if v & 1 == 0 && j < mb.ag.pidx.len() {
                let x = mb.ag.pidx[j];
                mb.ag.pidx.insert(j, x);
                "dup-entry:with-path-index".into()
            } else {
                "dup-entry:entry-only".into()
            }
        }
        "verifier-k" => {
            let t = all.len() as u64;
            let (nk, l) = match v % 4 {
                0 => (t, "total"),
                1 => (t + 1, "total+1"),
                2 => (t.saturating_sub(1), "total-1"),
                _ => (0, "zero"),
            };
            mb.params.k = nk;
            format!("verifier-k:{}", l)
        }
        "verifier-m" => {
            let mx = all.iter().copied().max().unwrap_or(0);
            let (nm, l) = match v % 3 {
                0 => (mx, "max-index"),
                1 => (mx + 1, "max-index+1"),
                _ => (0, "zero"),
            };
            mb.params.m = nm;
            format!("verifier-m:{}", l)
        }
        "other-avk" => {
            // (claimed stakes far above the other registration's total are outside the lottery's domain)
            if mb.ag.sigs.iter().any(|s| s.stake > cx.other.total) {
                return "other-avk:skipped".into();
            }
            mb.w = cx.other;
            "other-avk".into()
        }
        "other-msg" => {
            mb.msg = cx.msg_b.clone();
            "other-msg".into()
        }
        "exactly-k-1" => {
            let k = mb.params.k;
            let mut t = all.len() as u64;
            while t + 1 > k && t > 0 {
                // drop from the last signature that still has an index
                if let Some(s) = mb.ag.sigs.iter_mut().rev().find(|s| !s.idx.is_empty()) {
                    s.idx.pop();
                }
                t -= 1;
            }
            "exactly-k-1".into()
        }
        "empty" => {
            mb.ag = Ag { sigs: vec![], vals: vec![], pidx: vec![] };
            if v & 1 == 0 {
                mb.params.k = 0;
                "empty:k-zero".into()
            } else {
                "empty".into()
            }
        }
        _ => unreachable!("kind {}", kind),
    }
}

fn key_of(s: &str) -> String {
    let h = h32(&[s.as_bytes()]);
    hexs(&h[..12])
}

fn world_random(rng: &mut Rng, id: usize, pool: &Pool) -> World {
    let n = [1usize, 2, 3, 5, 8, 4, 6, 7, 2, 3][id % 10];
    let mut keys: Vec<usize> = (0..pool.vk.len()).collect();
    rng.shuffle(&mut keys);
    let shape = if id % 2 == 0 { 0 } else { [0, 1, 2, 2][rng.below(4) as usize] };
    let members: Vec<(usize, u64)> = (0..n)
        .map(|i| {
            let st = match shape {
                0 => 1000,
                1 => {
                    if i % 2 == 0 { 1_000_000 * (1 + rng.below(3)) } else { 1 + rng.below(3) }
                }
                _ => {
                    if i == 0 { 1_000_000_000 } else { 1 + rng.below(50) }
                }
            };
            (keys[i], st)
        })
        .collect();
    let m = rng.range(3, 16);
    let phi_f = if shape == 0 { *rng.pick(&[0.5, 0.7, 0.8, 0.9]) } else { *rng.pick(&[0.3, 0.5, 0.7, 0.8, 0.9, 0.95, 0.99, 1.0]) };
    World::new(id, pool, &members, Parameters { m, k: 1, phi_f })
}

fn main() {
    let args = hc::parse_args();
    let mut rng = Rng::new(args.seed);
    let mut sink = Sink::new(&args);
    let pool = Pool::new(args.seed, 12);
    let mut book = Book::default();

    let n_worlds = if args.thorough { 150 } else { 12 };
    let worlds: Vec<World> = (0..n_worlds).map(|i| world_random(&mut rng, i, &pool)).collect();

    // honest material: per world two messages, their single signatures, k, the honest aggregate
    struct Honest {
        wi: usize,
        msg: Vec<u8>,
        msg_b: Vec<u8>,
        k: u64,
        ag: Option<Ag>,
        sig_b: Vec<Vec<u8>>,
    }
    let mut hon: Vec<Honest> = vec![];
    // real (vk bytes, sigma bytes) pairs, for the tie check of the aggregation formula
    let mut pairs: Vec<(Vec<u8>, Vec<u8>)> = vec![];
    for (wi, w) in worlds.iter().enumerate() {
        let msg = rng.bytes(6);
        let msg_b = rng.bytes(6);
        let sa = w.sign_all(&msg);
        let sb = w.sign_all(&msg_b);
        for (m_, ss) in [(&msg, &sa), (&msg_b, &sb)] {
            for s in ss.iter() {
                let (sigma, _, slot) = ssig_parts(s);
                book.learn(w, m_, w.leaves[slot as usize].0, &sigma);
                pairs.push((pool.vk[w.leaves[slot as usize].0].clone(), sigma));
            }
        }
        let mut cover: Vec<u64> = sa.iter().flat_map(|s| s.get_concatenation_signature_indices()).collect();
        cover.sort_unstable();
        cover.dedup();
        let c = cover.len() as u64;
        let k = if c == 0 { 1 } else { [c, c, c.saturating_sub(1).max(1), rng.range((c + 1) / 2, c)][rng.below(4) as usize] };
        let mut clerk_w = World::new(wi, &pool, &w.members, Parameters { k, ..w.params });
        clerk_w.id = wi;
        let ag = clerk_w.aggregate(&sa, &msg).ok().map(|a| Ag::of_real(&a));
        hon.push(Honest { wi, msg, msg_b, k, ag, sig_b: sb.iter().map(|s| ssig_parts(s).0).collect() });
    }

    let push = |sink: &mut Sink, kind: String, desc: serde_json::Value, model: Option<String>, obs: Option<u8>, verdict: Result<(), String>, nontrivial: bool| {
        if let Some(id) = sink.wants() {
            let key = key_of(&desc.to_string());
            sink.push(Case {
                id,
                kind,
                desc,
                model,
                impl_obs: match obs {
                    Some(o) => coq::oz(o as i128),
                    None => coq::oz(1),
                },
                holds: Some(verdict.is_ok()),
                why: verdict.err(),
                known: None,
                nontrivial,
                key,
            });
        }
    };

    // ---------------------------------------------------------------- single verifications
    let rounds = if args.thorough { 2 } else { 1 };
    for h in &hon {
        let w = &worlds[h.wi];
        let big = w.leaves.iter().map(|l| l.1).max().unwrap_or(0);
        let other = (1..worlds.len())
            .map(|d| &worlds[(h.wi + d) % worlds.len()])
            .find(|o| o.total >= big)
            .unwrap_or(&worlds[(h.wi + 1) % worlds.len()]);
        let Some(ag) = &h.ag else { continue };
        // spare sigmas: this world's parties on the other message, the next world's parties on theirs
        let mut spare = h.sig_b.clone();
        let ho = &hon[(h.wi + 1) % hon.len()];
        if let Some(a) = &ho.ag {
            spare.extend(a.sigs.iter().map(|s| s.sigma.clone()));
        }
        let cx = Ctx { pool: &pool, w, other, msg: h.msg.clone(), msg_b: h.msg_b.clone(), spare };
        for _ in 0..rounds {
            for kind in KINDS {
                let mut mb = Mb { w, params: Parameters { k: h.k, ..w.params }, msg: h.msg.clone(), ag: ag.clone() };
                let label = if *kind == "double" {
                    let a = *rng.pick(&KINDS[1..KINDS.len() - 1]);
                    let b = *rng.pick(&KINDS[1..KINDS.len() - 1]);
                    let la = mutate(&mut rng, &cx, &mut mb, a);
                    let lb = mutate(&mut rng, &cx, &mut mb, b);
                    format!("double({} + {})", la, lb)
                } else {
                    mutate(&mut rng, &cx, &mut mb, kind)
                };
                let enc = rng.below(3);
                let obs = observe(&mb, enc);
                let verdict = match obs {
                    Some(0) => judge(&mb, &pool, &book),
                    _ => Ok(()),
                };
                let model = obs.map(|_| format!("C01.Model.run_verify ({})", model_member(&mb, &pool, &book)));
                let mut desc = desc_member(&mb, &pool);
                desc["mutation"] = json!(label);
                desc["encoding"] = json!(ENC[enc as usize]);
                desc["decodes"] = json!(obs.is_some());
                let kind_s = label.split(':').next().unwrap_or("?").split('(').next().unwrap_or("?").to_string();
                push(&mut sink, kind_s, desc, model, obs, verdict, obs == Some(0) || *kind != "honest");
            }
        }
    }

    // ---------------------------------------------------------------- batches
    let usable: Vec<&Honest> = hon.iter().filter(|h| h.ag.is_some()).collect();
    let n_batches = if args.thorough { 900 } else { 60 };
    for b in 0..n_batches {
        if usable.is_empty() {
            break;
        }
        let size = match b % 12 {
            0 => 0,
            1 => 1,
            _ => rng.range(2, 4) as usize,
        };
        let mut mbs: Vec<Mb> = vec![];
        let mut labels: Vec<String> = vec![];
        for _ in 0..size {
            let h = *rng.pick(&usable);
            let w = &worlds[h.wi];
            mbs.push(Mb { w, params: Parameters { k: h.k, ..w.params }, msg: h.msg.clone(), ag: h.ag.clone().unwrap() });
            labels.push("honest".into());
        }
        let variant = rng.below(6);
        let mut kind = "batch-honest".to_string();
        if size > 0 {
            match variant {
                0 | 1 | 2 => {
                    // one member mutated
                    let j = rng.below(size as u64) as usize;
                    let h = usable.iter().find(|h| std::ptr::eq(&worlds[h.wi], mbs[j].w)).unwrap();
                    let w = mbs[j].w;
                    let other = &worlds[(h.wi + 1) % worlds.len()];
                    let cx = Ctx { pool: &pool, w, other, msg: h.msg.clone(), msg_b: h.msg_b.clone(), spare: h.sig_b.clone() };
                    let k = *rng.pick(&KINDS[1..KINDS.len() - 1]);
                    labels[j] = mutate(&mut rng, &cx, &mut mbs[j], k);
                    kind = "batch-one-mutated".into();
                }
                3 if size >= 2 => {
                    // sigma of entry 0 exchanged between two members
                    let a = 0;
                    let bb = 1 + rng.below(size as u64 - 1) as usize;
                    if !mbs[a].ag.sigs.is_empty() && !mbs[bb].ag.sigs.is_empty() && mbs[a].ag.sigs[0].sigma != mbs[bb].ag.sigs[0].sigma {
                        let t = mbs[a].ag.sigs[0].sigma.clone();
                        mbs[a].ag.sigs[0].sigma = mbs[bb].ag.sigs[0].sigma.clone();
                        mbs[bb].ag.sigs[0].sigma = t;
                        labels[a] = "sigma-from-other-member".into();
                        labels[bb] = "sigma-from-other-member".into();
                        kind = "batch-cross-sigma-swap".into();
                    }
                }
                _ => {}
            }
        }
        let enc = rng.below(3);
        let obs = observe_batch(&mbs, enc);
        let verdict = match obs {
            Some(0) => mbs.iter().enumerate().try_for_each(|(j, mb)| judge(mb, &pool, &book).map_err(|e| format!("batch accepted, member {}: {}", j, e))),
            _ => Ok(()),
        };
        let model = obs.map(|_| {
            format!(
                "C01.Model.run_batch {}",
                coq::list(&mbs.iter().map(|mb| format!("({})", model_member(mb, &pool, &book))).collect::<Vec<_>>())
            )
        });
        let desc = json!({
            "batch": mbs.iter().map(|mb| desc_member(mb, &pool)).collect::<Vec<_>>(),
            "mutations": labels, "encoding": ENC[enc as usize], "decodes": obs.is_some(),
        });
        push(&mut sink, kind, desc, model, obs, verdict, size > 0);
    }

    // ---------------------------------------------------------------- tie check of S-agg (1):
    // the real `BlsSignature::aggregate` against the reference implementation of the formula
    // (stmw::blsref, blst + blake2 only). Correspondence observation: a mismatch is a broken tie.
    let ref_rounds = if args.thorough { 40 } else { 5 };
    for r in 0..ref_rounds {
        for n in 1..=7usize {
            // n = 7: degenerate shapes (empty, length mismatch, the same pair twice)
            let (vks, sgs, shape): (Vec<Vec<u8>>, Vec<Vec<u8>>, &str) = if pairs.is_empty() {
                (vec![], vec![], "empty")
            } else if n <= 6 {
                let ch: Vec<&(Vec<u8>, Vec<u8>)> = (0..n).map(|_| rng.pick(&pairs)).collect();
                (ch.iter().map(|c| c.0.clone()).collect(), ch.iter().map(|c| c.1.clone()).collect(), "real-pairs")
            } else {
                let c = rng.pick(&pairs).clone();
                let d = rng.pick(&pairs).clone();
                match r % 3 {
                    0 => (vec![], vec![], "empty"),
                    1 => (vec![c.0.clone(), d.0.clone()], vec![c.1.clone()], "length-mismatch"),
                    _ => (vec![c.0.clone(), c.0.clone(), d.0.clone()], vec![c.1.clone(), c.1.clone(), d.1.clone()], "same-pair-twice"),
                }
            };
            let real = {
                let (v, s) = (vks.clone(), sgs.clone());
                hc::catch(move || real_aggregate(&v, &s))
            };
            let reference = blsref::aggregate(&vks, &sgs);
            let equal = real.as_ref() == Some(&reference);
            if let Some(id) = sink.wants() {
                let desc = json!({
                    "shape": shape, "n": vks.len(),
                    "vks": vks.iter().map(|b| hexs(b)).collect::<Vec<_>>(),
                    "sigmas": sgs.iter().map(|b| hexs(b)).collect::<Vec<_>>(),
                    "real": real.as_ref().map(|o| o.as_ref().map(|(v, s)| json!({"vk": hexs(v), "sigma": hexs(s)}))),
                    "reference": reference.as_ref().map(|(v, s)| json!({"vk": hexs(v), "sigma": hexs(s)})),
                });
                let key = key_of(&desc.to_string());
                sink.push(Case {
                    id,
                    kind: "bls-aggregate-reference".into(),
                    desc,
                    model: Some("OB true".into()),
                    impl_obs: coq::ob(equal),
                    holds: None,
                    why: None,
                    known: None,
                    nontrivial: vks.len() >= 2 && vks.len() == sgs.len(),
                    key,
                });
            }
        }
    }

    // ---------------------------------------------------------------- tie check of S-agg (2):
    // a concrete forgery attempt. phi_f = 1: every index is won by every sigma, so only the BLS check
    // stands between the crafted aggregate and acceptance. Two sigmas are shifted by +c_b*X / -c_a*X with
    // the coefficients of a WEAK scheme (coefficients that do not depend on all the signatures): under
    // such a scheme sum c_i*sigma_i is unchanged and the single pairing check passes although neither
    // value is a valid signature. The real verifier must reject (single and batched).
    let n_forge = if args.thorough { 40 } else { 6 };
    let fworlds: Vec<World> = (0..n_forge)
        .map(|i| {
            let n = 3 + (i % 4);
            let mut keys: Vec<usize> = (0..pool.vk.len()).collect();
            rng.shuffle(&mut keys);
            let members: Vec<(usize, u64)> = (0..n).map(|j| (keys[j], 1 + rng.below(20))).collect();
            let m = rng.range(n as u64, 12);
            World::new(1000 + i, &pool, &members, Parameters { m, k: m, phi_f: 1.0 })
        })
        .collect();
    const FAMILIES: [&str; 4] = ["slot-constant", "own-sigma", "all-sigmas-before-shift", "unit"];
    for (fi, w) in fworlds.iter().enumerate() {
        let msg = rng.bytes(6);
        let msg_o = rng.bytes(6);
        let m = w.params.m;
        // every party signs; the m indices are dealt round-robin so that every party contributes
        let deal = |msg: &[u8], book: &mut Book| -> Option<Ag> {
            let ss = w.sign_all(msg);
            let ns = ss.len() as u64;
            let mut crafted = vec![];
            for (j, s) in ss.iter().enumerate() {
                let (sigma, _, slot) = ssig_parts(s);
                book.learn(w, msg, w.leaves[slot as usize].0, &sigma);
                let idx: Vec<u64> = (0..m).filter(|i| i % ns == j as u64).collect();
                crafted.push(ssig_build(&sigma, &idx, slot)?);
            }
            w.aggregate(&crafted, msg).ok().map(|a| Ag::of_real(&a))
        };
        let base = deal(&msg, &mut book);
        let other = deal(&msg_o, &mut book);
        for fam in FAMILIES {
            let x_scalar = rng.bytes(16);
            let pa = rng.next();
            let pb = rng.next();
            let enc = rng.below(3);
            let (Some(base), Some(other)) = (&base, &other) else { continue };
            let ns = base.sigs.len();
            if ns < 3 {
                continue;
            }
            // slots a != b, both >= 1
            let a = 1 + (pa % (ns as u64 - 1)) as usize;
            let b = 1 + ((a - 1) + 1 + (pb % (ns as u64 - 2)) as usize) % (ns - 1);
            let sigmas: Vec<Vec<u8>> = base.sigs.iter().map(|s| s.sigma.clone()).collect();
            let coeff = |i: usize| -> Vec<u8> {
                match fam {
                    "slot-constant" => blsref::coeff_const(i).to_vec(),
                    "own-sigma" => blsref::coeff_own(&sigmas[i], i).to_vec(),
                    "all-sigmas-before-shift" => blsref::coeff_all(&sigmas, i).to_vec(),
                    _ => vec![1u8],
                }
            };
            let x = blsref::g1_times(&x_scalar);
            let (Some(sa), Some(sb)) = (blsref::p1_of(&sigmas[a]), blsref::p1_of(&sigmas[b])) else { continue };
            let shifted_a = blsref::p1_bytes(&blsref::p1_add(&sa, &blsref::p1_mul(&x, &coeff(b))));
            let shifted_b = blsref::p1_bytes(&blsref::p1_add(&sb, &blsref::p1_neg(&blsref::p1_mul(&x, &coeff(a)))));
            let mut forged = base.clone();
            forged.sigs[a].sigma = shifted_a.clone();
            forged.sigs[b].sigma = shifted_b.clone();
            let mb = Mb { w, params: w.params, msg: msg.clone(), ag: forged };
            let mo = Mb { w, params: w.params, msg: msg_o.clone(), ag: other.clone() };
            let label = format!("bls-shifted-pair:{}", fam);
            let extra = |desc: &mut serde_json::Value| {
                desc["mutation"] = json!(label);
                desc["encoding"] = json!(ENC[enc as usize]);
                desc["forgery"] = json!({
                    "world": fi, "slot_a": a, "slot_b": b, "x_scalar_le": hexs(&x_scalar),
                    "coefficient_family": fam, "c_a_le": hexs(&coeff(a)), "c_b_le": hexs(&coeff(b)),
                    "honest_sigmas": sigmas.iter().map(|s| hexs(s)).collect::<Vec<_>>(),
                    "sigma_a_shifted": hexs(&shifted_a), "sigma_b_shifted": hexs(&shifted_b),
                });
            };
            // single verification
            let obs = observe(&mb, enc);
            let verdict = match obs {
                Some(0) => judge(&mb, &pool, &book).and(Err("an aggregate with two shifted (invalid) BLS signatures was accepted".to_string())),
                _ => Ok(()),
            };
            let model = obs.map(|_| format!("C01.Model.run_verify ({})", model_member(&mb, &pool, &book)));
            let mut desc = desc_member(&mb, &pool);
            extra(&mut desc);
            desc["decodes"] = json!(obs.is_some());
            push(&mut sink, "bls-shifted-pair".into(), desc, model, obs, verdict, true);
            // the same aggregate in a batch with an honest member (order alternates)
            let mbs = if fi % 2 == 0 { vec![mo, mb] } else { vec![mb, mo] };
            let obs = observe_batch(&mbs, enc);
            let verdict = match obs {
                Some(0) => mbs
                    .iter()
                    .enumerate()
                    .try_for_each(|(j, mb)| judge(mb, &pool, &book).map_err(|e| format!("batch accepted, member {}: {}", j, e)))
                    .and(Err("a batch containing an aggregate with two shifted (invalid) BLS signatures was accepted".to_string())),
                _ => Ok(()),
            };
            let model = obs.map(|_| {
                format!(
                    "C01.Model.run_batch {}",
                    coq::list(&mbs.iter().map(|mb| format!("({})", model_member(mb, &pool, &book))).collect::<Vec<_>>())
                )
            });
            let mut desc = json!({ "batch": mbs.iter().map(|mb| desc_member(mb, &pool)).collect::<Vec<_>>(), "decodes": obs.is_some() });
            extra(&mut desc);
            push(&mut sink, "bls-shifted-pair-batch".into(), desc, model, obs, verdict, true);
        }
    }
    sink.finish();
}
