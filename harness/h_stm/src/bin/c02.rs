//! C02 correspondence harness: aggregation completeness and monotonicity under extra or repeated
//! single signatures.
//!
//! Real registrations of 1-8 parties (equal / skewed / single dominant stake), m <= 16, real
//! `Initializer` / `KeyRegistration` / `Signer` / `Clerk` through the public mithril-stm API.  From the
//! honest single signatures of a message the harness derives input lists by duplication (adjacent,
//! far apart, many copies), permutation, index-subset restriction (copies of one signature with
//! different index lists, an index repeated inside a list), corruption (sigma of another party /
//! another message / another registration, an index that lost the lottery, an index >= m), an
//! unregistered signer_index, and mixtures.  Every list goes through the real
//! `Clerk::aggregate_signatures_with_type` (-> `ConcatenationProof::aggregate_signatures` ->
//! `ConcatenationClerk::select_valid_signatures_for_k_indices`); a result is verified with the real
//! `AggregateSignature::verify`.
//! Observation: outcome class (0 Ok / 1 NotEnoughSignatures / 3 other error / 2 panic), for Ok the
//! sorted (signer slot, index) pairs of the result and whether it verifies.
//! `holds` (independent of the Coq model, from provenance: which party made which sigma on which
//! message under which registration, and which indices that party's honest signature carries):
//!   (a) no panic; (b) the valid signatures present cover >= k distinct indices  =>  Ok;
//!   (c) Ok => the result verifies; (d) Ok => the valid signatures present cover >= k distinct
//!   indices and every (slot, index) of the result is carried by a valid input signature of that slot;
//!   (e) against the base list the case was derived from by ADDING or REORDERING material: Ok must not
//!   turn into a failure.
#[path = "../stmw.rs"]
mod stmw;

use hc::{coq, Case, Rng, Sink};
use mithril_stm::{AggregationError, Parameters, SingleSignature};
use serde_json::json;
use std::collections::{BTreeMap, BTreeSet};
use std::panic::AssertUnwindSafe;
use stmw::*;

/// one input single signature: bytes and integers only
#[derive(Clone, Debug, PartialEq)]
struct It {
    sigma: Vec<u8>,
    idx: Vec<u64>,
    slot: u64,
    tag: String,
}

/// what the real code did with a list
#[derive(Clone, Debug, PartialEq)]
enum Out {
    Ok { pairs: Vec<(u64, u64)>, verifies: bool },
    NotEnough,
    OtherErr(String),
    Panic,
}
impl Out {
    fn class(&self) -> u8 {
        match self {
            Out::Ok { .. } => 0,
            Out::NotEnough => 1,
            Out::Panic => 2,
            Out::OtherErr(_) => 3,
        }
    }
    fn coq(&self) -> String {
        match self {
            Out::Ok { pairs, verifies } => {
                let ps: Vec<String> = pairs.iter().map(|(s, i)| coq::on128(*s as u128 * 4294967296 + *i as u128)).collect();
                coq::ol(&[coq::oz(0), coq::ol(&ps), coq::ob(*verifies)])
            }
            o => coq::ol(&[coq::oz(o.class() as i128)]),
        }
    }
}

struct Env<'a> {
    w: &'a World,
    msg: Vec<u8>,
    /// honest signature of each slot that won something: slot -> (sigma, indices)
    honest: BTreeMap<u64, (Vec<u8>, Vec<u64>)>,
}

fn build(items: &[It]) -> Option<Vec<SingleSignature>> {
    items.iter().map(|it| ssig_build(&it.sigma, &it.idx, it.slot)).collect()
}

fn run_real(env: &Env, items: &[It]) -> Option<Out> {
    let sigs = build(items)?;
    let w = env.w;
    let msg = env.msg.clone();
    let r = hc::catch(AssertUnwindSafe(|| match w.aggregate(&sigs, &msg) {
        Ok(a) => {
            let ag = Ag::of_real(&a);
            let mut pairs: Vec<(u64, u64)> =
                ag.sigs.iter().flat_map(|s| s.idx.iter().map(move |i| (s.slot, *i))).collect();
            pairs.sort_unstable_by_key(|(s, i)| *s as u128 * 4294967296 + *i as u128);
            let verifies = a.verify(&msg, &w.avk, &w.params, None, None).is_ok();
            Out::Ok { pairs, verifies }
        }
        Err(e) => match e.downcast_ref::<AggregationError>() {
            Some(AggregationError::NotEnoughSignatures(_, _)) => Out::NotEnough,
            _ => Out::OtherErr(format!("{:#}", e)),
        },
    }));
    Some(r.unwrap_or(Out::Panic))
}

/// provenance: the item is the honest sigma of the party registered at its slot, carrying only
/// indices that party's honest signature carries (= every index < m it won)
fn is_valid(env: &Env, it: &It) -> bool {
    match env.honest.get(&it.slot) {
        Some((sigma, idx)) => *sigma == it.sigma && it.idx.iter().all(|i| idx.contains(i)),
        None => false,
    }
}

fn covered(env: &Env, items: &[It]) -> BTreeSet<u64> {
    items.iter().filter(|it| is_valid(env, it)).flat_map(|it| it.idx.iter().copied()).collect()
}

fn judge(env: &Env, items: &[It], out: &Out, base: Option<(&Out, bool)>) -> Result<(), String> {
    let k = env.w.params.k;
    let cov = covered(env, items);
    if *out == Out::Panic {
        return Err("the aggregation panicked".into());
    }
    if cov.len() as u64 >= k && !cov.is_empty() && out.class() != 0 {
        return Err(format!(
            "the valid signatures present cover {} distinct indices, k = {}, but the aggregation failed ({})",
            cov.len(),
            k,
            match out {
                Out::NotEnough => "NotEnoughSignatures".to_string(),
                Out::OtherErr(e) => e.clone(),
                _ => "?".into(),
            }
        ));
    }
    if let Out::Ok { pairs, verifies } = out {
        if !verifies {
            return Err("the aggregation succeeded but its result does not verify".into());
        }
        if (cov.len() as u64) < k {
            return Err(format!("the aggregation succeeded although the valid signatures cover only {} < k = {} indices", cov.len(), k));
        }
        for (slot, i) in pairs {
            if !items.iter().any(|it| it.slot == *slot && is_valid(env, it) && it.idx.contains(i)) {
                return Err(format!("the result carries index {} for slot {} which no valid input signature of that slot carries", i, slot));
            }
        }
    }
    if let Some((b, additive)) = base {
        if additive && b.class() == 0 && out.class() != 0 {
            return Err("added / reordered material turned a successful aggregation into a failure".into());
        }
    }
    Ok(())
}

/// Coq term: C02.Model.run n m k [items]
fn model_term(env: &Env, items: &[It]) -> String {
    let w = env.w;
    let p = w.params;
    // rank of a sigma = its position among the distinct sigmas of the case in byte order
    let distinct: BTreeSet<&Vec<u8>> = items.iter().map(|it| &it.sigma).collect();
    let order: Vec<&Vec<u8>> = distinct.into_iter().collect();
    let msgp = w.msgp(&env.msg);
    let srs: Vec<String> = items
        .iter()
        .map(|it| {
            let rank = order.iter().position(|s| **s == it.sigma).unwrap() as u64;
            // S-ideal: sigma verifies under the key registered at the slot iff it is that party's
            // signature of msg||root
            let sok = matches!(env.honest.get(&it.slot), Some((s, _)) if *s == it.sigma);
            let stake = if (it.slot as usize) < w.n() { w.leaves[it.slot as usize].1 } else { 0 };
            let mut lost: Vec<u64> = vec![];
            for &i in &it.idx {
                if (it.slot as usize) < w.n() && i < p.m && !won(p.phi_f, &msgp, i, &it.sigma, stake, w.total) && !lost.contains(&i) {
                    lost.push(i);
                }
            }
            format!(
                "Build_sr {} {} {} {} {} {}",
                coq::n(rank),
                coq::n(it.slot),
                coq::list_n(&it.idx),
                coq::n(it.slot),
                coq::b(sok),
                coq::list_n(&lost)
            )
        })
        .collect();
    format!(
        "C02.Model.run {} {} {} {}",
        coq::n(w.n() as u64),
        coq::n(p.m),
        coq::n(p.k),
        coq::list(&srs.iter().map(|s| format!("({})", s)).collect::<Vec<_>>())
    )
}


fn desc(env: &Env, items: &[It], label: &str, base_label: &str) -> serde_json::Value {
    let w = env.w;
    json!({
        "registration": w.leaves.iter().map(|(pi, st)| json!({"key": pi + 1, "stake": st})).collect::<Vec<_>>(),
        "m": w.params.m, "k": w.params.k, "phi_f": w.params.phi_f, "msg": hexs(&env.msg),
        "honest": env.honest.iter().map(|(slot, (s, ix))| json!({"slot": slot, "sigma": hexs(&s[..6]), "indexes": ix})).collect::<Vec<_>>(),
        "base": base_label, "derivation": label,
        "input": items.iter().map(|it| json!({"sigma": hexs(&it.sigma[..6]), "indexes": it.idx, "signer_index": it.slot, "what": it.tag})).collect::<Vec<_>>(),
    })
}

fn key_of(s: &str) -> String {
    let h = h32(&[s.as_bytes()]);
    hexs(&h[..12])
}

fn world_random(rng: &mut Rng, id: usize, pool: &Pool) -> (Vec<(usize, u64)>, Parameters) {
    let n = [3usize, 2, 1, 5, 8, 4, 6, 7, 2, 3][id % 10];
    let mut keys: Vec<usize> = (0..pool.vk.len()).collect();
    rng.shuffle(&mut keys);
    let shape = if id % 2 == 0 { 0 } else { [0, 1, 2, 2][rng.below(4) as usize] };
    let members: Vec<(usize, u64)> = (0..n)
        .map(|i| {
            let st = match shape {
                0 => 1000,
                1 => {
                    if i % 2 == 0 { 1_000_000 * (1 + rng.below(3)) } else { 1 + rng.below(3) }
                }
                _ => {
                    if i == 0 { 1_000_000_000 } else { 1 + rng.below(50) }
                }
            };
            (keys[i], st)
        })
        .collect();
    let m = rng.range(3, 16);
    let phi_f = if shape == 0 { *rng.pick(&[0.5, 0.7, 0.8, 0.9, 0.95]) } else { *rng.pick(&[0.5, 0.7, 0.8, 0.9, 0.95, 0.99, 1.0]) };
    (members, Parameters { m, k: 1, phi_f })
}

/// junk material available in a world
struct Junk {
    /// (slot, sigma, idx) of this world's parties on another message
    other_msg: Vec<(u64, Vec<u8>, Vec<u64>)>,
    /// (slot, sigma, idx) of another registration's parties on the same message
    other_world: Vec<(u64, Vec<u8>, Vec<u64>)>,
}

const ADD_KINDS: &[&str] = &[
    "dup-adjacent", "dup-far", "dup-many", "restricted-copy-before", "restricted-copy-after", "split-copies",
    "repeated-index-copy", "junk-other-msg", "junk-other-registration", "junk-swapped-sigma", "junk-lost-index",
    "junk-index-ge-m", "junk-empty-indexes", "unregistered-slot",
];

fn pick_at(rng: &mut Rng, len: usize) -> usize {
    rng.below(len as u64 + 1) as usize
}

fn subset(rng: &mut Rng, xs: &[u64], nonempty: bool) -> Vec<u64> {
    let mut r: Vec<u64> = xs.iter().copied().filter(|_| rng.coin()).collect();
    if nonempty && r.is_empty() && !xs.is_empty() {
        r.push(*rng.pick(xs));
    }
    r
}

/// add material of class `kind` to `l`; returns a label
fn add(rng: &mut Rng, env: &Env, junk: &Junk, l: &mut Vec<It>, kind: &str) -> String {
    let w = env.w;
    let m = w.params.m;
    let n = w.n() as u64;
    let v = rng.next();
    let honest: Vec<(&u64, &(Vec<u8>, Vec<u64>))> = env.honest.iter().collect();
    // a signature already present (if any)
    let present: Option<It> = if l.is_empty() { None } else { Some(l[rng.below(l.len() as u64) as usize].clone()) };
    let some_honest: Option<It> = if honest.is_empty() {
        None
    } else {
        let (slot, (s, ix)) = *rng.pick(&honest);
        Some(It { sigma: s.clone(), idx: ix.clone(), slot: *slot, tag: "honest".into() })
    };
    match kind {
        "dup-adjacent" => {
            if l.is_empty() {
                return "dup-adjacent:nothing".into();
            }
            let j = rng.below(l.len() as u64) as usize;
            let mut c = l[j].clone();
            c.tag = format!("copy of [{}]", j);
            l.insert(j + 1, c);
            "dup-adjacent".into()
        }
        "dup-far" => {
            let Some(mut c) = present else { return "dup-far:nothing".into() };
            c.tag = "copy".into();
            if v & 1 == 0 {
                l.insert(0, c)
            } else {
                l.push(c)
            }
            "dup-far".into()
        }
        "dup-many" => {
            let Some(mut c) = present else { return "dup-many:nothing".into() };
            c.tag = "copy".into();
            let copies = rng.range(2, 6);
            for _ in 0..copies {
                let at = pick_at(rng, l.len());
                l.insert(at, c.clone());
            }
            format!("dup-many:{}", copies)
        }
        "restricted-copy-before" | "restricted-copy-after" => {
            if l.is_empty() {
                return format!("{}:nothing", kind);
            }
            let j = rng.below(l.len() as u64) as usize;
            let mut c = l[j].clone();
            c.idx = subset(rng, &c.idx, v & 2 == 0);
            if v & 4 == 0 {
                c.idx.reverse();
            }
            c.tag = format!("copy of [{}] with a sub-list of its indexes", j);
            if kind == "restricted-copy-before" {
                let at = rng.below(j as u64 + 1) as usize;
                l.insert(at, c);
            } else {
                let at = j + 1 + rng.below((l.len() - j) as u64) as usize;
                l.insert(at, c);
            }
            kind.into()
        }
        "split-copies" => {
            // replace nothing: add two overlapping restricted copies of an honest signature
            let Some(h) = some_honest else { return "split-copies:nothing".into() };
            let a = subset(rng, &h.idx, true);
            let mut b: Vec<u64> = h.idx.iter().copied().filter(|i| !a.contains(i) || rng.coin()).collect();
            if v & 1 == 0 {
                b.reverse();
            }
            for ix in [a, b] {
                let at = pick_at(rng, l.len());
                l.insert(at, It { idx: ix, tag: "honest sigma with a sub-list of its indexes".into(), ..h.clone() });
            }
            "split-copies".into()
        }
        "repeated-index-copy" => {
            let Some(mut h) = some_honest else { return "repeated-index-copy:nothing".into() };
            if h.idx.is_empty() {
                return "repeated-index-copy:nothing".into();
            }
            let reps = rng.range(1, 4);
            for _ in 0..reps {
                let i = *rng.pick(&h.idx);
                let at = pick_at(rng, h.idx.len());
                h.idx.insert(at, i);
            }
            if v & 8 == 0 {
                h.idx = vec![h.idx[0]; 1 + reps as usize];
            }
            h.tag = "honest sigma, an index repeated inside the list".into();
            let at = pick_at(rng, l.len());
            l.insert(at, h);
            "repeated-index-copy".into()
        }
        "junk-other-msg" => {
            if junk.other_msg.is_empty() {
                return "junk-other-msg:nothing".into();
            }
            let cnt = rng.range(1, 3);
            for _ in 0..cnt {
                let (slot, s, ix) = rng.pick(&junk.other_msg).clone();
                // with its own indexes, or with the indexes of the honest signature of that slot
                let idx = match (rng.coin(), env.honest.get(&slot)) {
                    (true, Some((_, hi))) => hi.clone(),
                    _ => ix,
                };
                let at = pick_at(rng, l.len());
                l.insert(at, It { sigma: s, idx, slot, tag: "signature of another message".into() });
            }
            "junk-other-msg".into()
        }
        "junk-other-registration" => {
            if junk.other_world.is_empty() {
                return "junk-other-registration:nothing".into();
            }
            let (slot, s, ix) = rng.pick(&junk.other_world).clone();
            let slot = if v & 1 == 0 { slot % n } else { rng.below(n) };
            let at = pick_at(rng, l.len());
            l.insert(at, It { sigma: s, idx: ix.into_iter().filter(|i| *i < m || v & 2 == 0).collect(), slot, tag: "signature made under another registration".into() });
            "junk-other-registration".into()
        }
        "junk-swapped-sigma" => {
            // the sigma of one party under the slot (and with the indexes) of another
            if honest.len() < 2 && n < 2 {
                return "junk-swapped-sigma:single-party".into();
            }
            let Some(h) = some_honest else { return "junk-swapped-sigma:nothing".into() };
            let other_slot = (h.slot + 1 + rng.below(n.max(2) - 1)) % n.max(1);
            if other_slot == h.slot {
                return "junk-swapped-sigma:single-party".into();
            }
            let idx = match env.honest.get(&other_slot) {
                Some((_, hi)) if v & 1 == 0 => hi.clone(),
                _ => h.idx.clone(),
            };
            let at = pick_at(rng, l.len());
            l.insert(at, It { sigma: h.sigma.clone(), idx, slot: other_slot, tag: format!("sigma of slot {} under another slot", h.slot) });
            "junk-swapped-sigma".into()
        }
        "junk-lost-index" => {
            let Some(mut h) = some_honest else { return "junk-lost-index:nothing".into() };
            let lost: Vec<u64> = (0..m).filter(|i| !h.idx.contains(i)).collect();
            if lost.is_empty() {
                return "junk-lost-index:none-lost".into();
            }
            let i = *rng.pick(&lost);
            let at = pick_at(rng, h.idx.len());
            h.idx.insert(at, i);
            h.tag = format!("honest sigma with index {} which it did not win", i);
            let at = pick_at(rng, l.len());
            l.insert(at, h);
            "junk-lost-index".into()
        }
        "junk-index-ge-m" => {
            let Some(mut h) = some_honest else { return "junk-index-ge-m:nothing".into() };
            let val = [m, m + 1, u64::MAX, m + 7][(v % 4) as usize];
            let at = pick_at(rng, h.idx.len());
            h.idx.insert(at, val);
            h.tag = format!("honest sigma with index {} >= m", val);
            let at = pick_at(rng, l.len());
            l.insert(at, h);
            "junk-index-ge-m".into()
        }
        "junk-empty-indexes" => {
            let Some(mut h) = some_honest else { return "junk-empty-indexes:nothing".into() };
            h.idx.clear();
            h.tag = "honest sigma with no index".into();
            let at = pick_at(rng, l.len());
            l.insert(at, h);
            "junk-empty-indexes".into()
        }
        "unregistered-slot" => {
            let Some(mut h) = some_honest.or(present) else { return "unregistered-slot:nothing".into() };
            h.slot = [n, n + 3, u64::MAX, n + 1][(v % 4) as usize];
            h.tag = format!("signer_index {} is not registered", h.slot);
            let at = pick_at(rng, l.len());
            l.insert(at, h);
            "unregistered-slot".into()
        }
        _ => unreachable!("kind {}", kind),
    }
}

fn main() {
    let args = hc::parse_args();
    let mut rng = Rng::new(args.seed);
    let mut sink = Sink::new(&args);
    let pool = Pool::new(args.seed, 12);

    let n_worlds = if args.thorough { 60 } else { 14 };
    let rounds = 1;
    let mixtures = if args.thorough { 7 } else { 3 };

    // registrations (k = 1 here; the clerk's k is chosen per base below)
    let protos: Vec<(Vec<(usize, u64)>, Parameters)> = (0..n_worlds).map(|i| world_random(&mut rng, i, &pool)).collect();
    let first: Vec<World> = protos.iter().enumerate().map(|(i, (mem, p))| World::new(i, &pool, mem, *p)).collect();

    for wi in 0..n_worlds {
        let w0 = &first[wi];
        let msg = rng.bytes(6);
        let msg_b = rng.bytes(6);
        let sa: Vec<SingleSignature> = w0.sign_all(&msg);
        let honest: BTreeMap<u64, (Vec<u8>, Vec<u64>)> = sa
            .iter()
            .map(|s| {
                let (sigma, idx, slot) = ssig_parts(s);
                (slot, (sigma, idx))
            })
            .collect();
        // "every signature produced by a registered signer verifies": the real SingleSignature::verify
        // on each honest signature, under the key and stake registered at its signer_index
        {
            let failing: Vec<u64> = sa
                .iter()
                .filter(|s| {
                    let e = w0.closed.closed_registration_entries.iter().nth(s.signer_index as usize).expect("registered");
                    s.verify(&w0.params, &e.get_verification_key_for_concatenation(), &e.get_stake(), &w0.avk, &msg).is_err()
                })
                .map(|s| s.signer_index)
                .collect();
            if let Some(id) = sink.wants() {
                let d = json!({"registration": w0.leaves.iter().map(|(pi, st)| json!({"key": pi + 1, "stake": st})).collect::<Vec<_>>(),
                    "m": w0.params.m, "phi_f": w0.params.phi_f, "msg": hexs(&msg),
                    "honest": honest.iter().map(|(slot, (s, ix))| json!({"slot": slot, "sigma": hexs(&s[..6]), "indexes": ix})).collect::<Vec<_>>()});
                let key = key_of(&d.to_string());
                sink.push(Case {
                    id,
                    kind: "honest-signatures-verify".into(),
                    desc: d,
                    model: None,
                    impl_obs: coq::ob(failing.is_empty()),
                    holds: Some(failing.is_empty()),
                    why: if failing.is_empty() { None } else { Some(format!("the honest single signatures of slots {:?} do not verify", failing)) },
                    known: None,
                    nontrivial: !sa.is_empty(),
                    key,
                });
            }
        }
        let ow = &first[(wi + 1) % n_worlds];
        let junk = Junk {
            other_msg: w0.sign_all(&msg_b).iter().map(|s| { let (a, b, c) = ssig_parts(s); (c, a, b) }).collect(),
            other_world: ow.sign_all(&msg).iter().map(|s| { let (a, b, c) = ssig_parts(s); (c, a, b) }).collect(),
        };
        let cover: BTreeSet<u64> = honest.values().flat_map(|(_, ix)| ix.iter().copied()).collect();
        let c = cover.len() as u64;
        // thresholds: exactly the coverage, one below, about half, one, one above (not enough)
        let mut ks: Vec<u64> = vec![c.max(1), c.saturating_sub(1).max(1), ((c + 1) / 2).max(1), 1, c + 1];
        ks.dedup();
        if !args.thorough {
            let extra = ks[1 + rng.below(ks.len() as u64 - 1) as usize];
            ks = vec![ks[0], extra];
            ks.dedup();
        }
        for k in ks {
            let w = World::new(wi, &pool, &protos[wi].0, Parameters { k, ..protos[wi].1 });
            let env = Env { w: &w, msg: msg.clone(), honest: honest.clone() };
            let full: Vec<It> = honest.iter().map(|(slot, (s, ix))| It { sigma: s.clone(), idx: ix.clone(), slot: *slot, tag: "honest".into() }).collect();

            let emit = |sink: &mut Sink, kind: &str, label: &str, base_label: &str, items: &[It], base: Option<(&Out, bool)>| -> Option<Out> {
                let out = run_real(&env, items);
                if let Some(id) = sink.wants() {
                    let d = desc(&env, items, label, base_label);
                    let key = key_of(&d.to_string());
                    match &out {
                        Some(o) => {
                            let verdict = judge(&env, items, o, base);
                            sink.push(Case {
                                id,
                                kind: kind.to_string(),
                                desc: d,
                                model: Some(model_term(&env, items)),
                                impl_obs: o.coq(),
                                holds: Some(verdict.is_ok()),
                                why: verdict.err(),
                                known: None,
                                nontrivial: true,
                                key,
                            });
                        }
                        None => {
                            // a value that does not decode cannot be handed to the clerk
                            sink.push(Case { id, kind: format!("{}:undecodable", kind), desc: d, model: None, impl_obs: coq::ol(&[coq::oz(9)]), holds: None, why: None, known: None, nontrivial: false, key });
                        }
                    }
                }
                out
            };

            // ---- bases
            let mut bases: Vec<(String, Vec<It>)> = vec![("honest-all".into(), full.clone())];
            if full.len() >= 2 {
                let mut sub = full.clone();
                sub.remove(rng.below(sub.len() as u64) as usize);
                bases.push(("honest-minus-one".into(), sub));
                let mut rev = full.clone();
                rev.reverse();
                bases.push(("honest-reversed".into(), rev));
            }
            bases.push(("empty".into(), vec![]));
            {
                // every honest signature restricted to a sub-list (some coverage lost)
                let r: Vec<It> = full.iter().map(|it| It { idx: subset(&mut rng, &it.idx, false), tag: "honest, sub-list of indexes".into(), ..it.clone() }).collect();
                bases.push(("honest-restricted".into(), r));
            }
            for (bl, b) in &bases {
                let Some(bo) = emit(&mut sink, "base", bl, "-", b, None) else { continue };
                for _ in 0..rounds {
                    // permutation
                    let mut p = b.clone();
                    rng.shuffle(&mut p);
                    emit(&mut sink, "permutation", "shuffle", bl, &p, Some((&bo, true)));
                    // every additive kind
                    for kind in ADD_KINDS {
                        let mut l = b.clone();
                        let label = add(&mut rng, &env, &junk, &mut l, kind);
                        if rng.chance(1, 3) {
                            rng.shuffle(&mut l);
                        }
                        emit(&mut sink, kind, &label, bl, &l, Some((&bo, true)));
                    }
                    // mixtures
                    for _ in 0..mixtures {
                        let mut l = b.clone();
                        let cnt = rng.range(2, 5);
                        let mut labels = vec![];
                        for _ in 0..cnt {
                            let kind = *rng.pick(ADD_KINDS);
                            labels.push(add(&mut rng, &env, &junk, &mut l, kind));
                        }
                        if rng.coin() {
                            rng.shuffle(&mut l);
                        }
                        emit(&mut sink, "mix", &labels.join(" + "), bl, &l, Some((&bo, true)));
                    }
                    // only junk, no honest signature of the base kept
                    {
                        let mut l: Vec<It> = vec![];
                        let mut labels = vec![];
                        for _ in 0..rng.range(1, 4) {
                            let kind = *rng.pick(&ADD_KINDS[7..]);
                            labels.push(add(&mut rng, &env, &junk, &mut l, kind));
                        }
                        emit(&mut sink, "junk-only", &labels.join(" + "), "empty", &l, None);
                    }
                }
            }
        }
    }
    sink.finish();
}
