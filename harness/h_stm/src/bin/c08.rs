//! C08 correspondence harness: the signing lottery `is_lottery_won` (num-integer backend).
//!
//! Runs the REAL function through the cfg hook `mithril_stm::verif_export::is_lottery_won`
//! on draws that are uniform and draws concentrated within 2^-k (k = 3..200) of the exact
//! decision threshold, for stakes 0..=total, totals up to 2^64-1 and phi_f next to 0 and 1.
//! Per case it prints the model call (`C08.Model.run`, c = the exact value of the f64
//! `(1.0 - phi_f).ln()` as mantissa * 2^exp) and the implementation's observation, and judges
//! the property itself with an oracle that does not use the model: rigorous fixed-point
//! interval arithmetic (1400 fractional bits, directed rounding, explicit tail bounds) for
//! `exp`, `ln` and the comparison `ev/2^512 < 1 - (1-phi_f)^(stake/total)`.
use hc::{coq, Case, Rng, Sink};
use num_bigint::{BigInt, Sign};
use num_integer::Integer;
use num_traits::{One, Signed, ToPrimitive, Zero};

const P: u32 = 1400; // fractional bits of the fixed-point intervals
const KNOWN_LARGE_X: &str = "C08-lost-exit-large-x";
const KNOWN_SHORTCUT: &str = "C08-phi-epsilon-shortcut";

fn pow2(k: u32) -> BigInt {
    BigInt::one() << (k as usize)
}

/// closed interval [lo, hi] / 2^P
#[derive(Clone, Debug)]
struct Iv {
    lo: BigInt,
    hi: BigInt,
}

fn fdiv(a: &BigInt, b: &BigInt) -> BigInt {
    a.div_floor(b)
}
fn cdiv(a: &BigInt, b: &BigInt) -> BigInt {
    -((-a).div_floor(b))
}

/// exp(a/b) for a >= 0, b > 0: partial sums with directed rounding; the tail after term k is
/// bounded by that term once x/(k+1) < 1/2 (geometric series of ratio < 1/2).
fn exp_rat(a: &BigInt, b: &BigInt) -> Iv {
    assert!(!a.is_negative() && b.is_positive());
    let one = pow2(P);
    let (mut tlo, mut thi) = (one.clone(), one.clone());
    let (mut slo, mut shi) = (one.clone(), one.clone());
    let mut k = 0u64;
    loop {
        k += 1;
        let den = b * BigInt::from(k);
        tlo = fdiv(&(&tlo * a), &den);
        thi = cdiv(&(&thi * a), &den);
        slo += &tlo;
        shi += &thi;
        let ratio_small = (a * BigInt::from(2u8)) < (b * BigInt::from(k + 1));
        if ratio_small && thi < BigInt::from(4u8) {
            shi += &thi + BigInt::one();
            break;
        }
        assert!(k < 100_000);
    }
    Iv { lo: slo, hi: shi }
}

/// atanh(a/b) for 0 <= a/b <= 1/3
fn atanh_rat(a: &BigInt, b: &BigInt) -> Iv {
    assert!(!a.is_negative() && b.is_positive() && (a * BigInt::from(3u8)) <= *b);
    let one = pow2(P);
    let (a2, b2) = (a * a, b * b);
    let mut plo = fdiv(&(&one * a), b);
    let mut phi = cdiv(&(&one * a), b);
    let (mut slo, mut shi) = (plo.clone(), phi.clone());
    let mut k = 0u64;
    loop {
        k += 1;
        plo = fdiv(&(&plo * &a2), &b2);
        phi = cdiv(&(&phi * &a2), &b2);
        let d = BigInt::from(2 * k + 1);
        slo += fdiv(&plo, &d);
        shi += cdiv(&phi, &d);
        if phi < BigInt::from(4u8) {
            // tail <= next power / (1 - z^2) <= 9/8 * phi
            shi += &phi * BigInt::from(2u8) + BigInt::one();
            break;
        }
        assert!(k < 100_000);
    }
    Iv { lo: slo, hi: shi }
}

/// ln(m / 2^s) for m > 0
fn ln_dyadic(m: &BigInt, s: i64) -> Iv {
    assert!(m.is_positive());
    let bits = m.bits() as i64;
    let top = pow2((bits - 1) as u32);
    // m = m' * 2^(bits-1), m' in [1,2): ln = 2 atanh((m'-1)/(m'+1)) + (bits-1-s) ln 2
    let a = atanh_rat(&(m - &top), &(m + &top));
    let l2 = atanh_rat(&BigInt::one(), &BigInt::from(3u8));
    let e = BigInt::from(bits - 1 - s);
    let two = BigInt::from(2u8);
    let (elo, ehi) = if e.is_negative() { (&e * &l2.hi, &e * &l2.lo) } else { (&e * &l2.lo, &e * &l2.hi) };
    Iv { lo: (&a.lo + elo) * &two, hi: (&a.hi + ehi) * &two }
}

/// finite f64 -> (mantissa, exponent) with value = mantissa * 2^exponent
fn dyadic(f: f64) -> Option<(i128, i32)> {
    if !f.is_finite() {
        return None;
    }
    let bits = f.to_bits();
    let neg = bits >> 63 == 1;
    let e = ((bits >> 52) & 0x7ff) as i32;
    let frac = (bits & ((1u64 << 52) - 1)) as i128;
    let (m, ex) = if e == 0 { (frac, -1074) } else { (frac | (1i128 << 52), e - 1075) };
    if m == 0 {
        return Some((0, 0));
    }
    let tz = m.trailing_zeros() as i32;
    let (m, ex) = (m >> tz, ex + tz);
    Some((if neg { -m } else { m }, ex))
}

#[derive(Clone, Debug)]
struct Inp {
    phi: f64,
    ev: BigInt,
    stake: u64,
    total: u64,
}

fn ev_bytes(ev: &BigInt) -> [u8; 64] {
    let (_, mut v) = ev.to_bytes_le();
    assert!(v.len() <= 64);
    v.resize(64, 0);
    let mut out = [0u8; 64];
    out.copy_from_slice(&v);
    out
}

/// What the real function did: returned, panicked, or did not come back within the watchdog
/// limit (the loop is capped at 1000 iterations of rational arithmetic: on the real code a call
/// takes milliseconds; a mutant that never leaves the loop early needs minutes per call).
#[derive(Clone, Copy, PartialEq, Debug)]
enum Got {
    Ret(bool),
    Panic,
    Timeout,
}
const WATCHDOG_SECS: u64 = 30;
static TIMEOUTS: std::sync::atomic::AtomicUsize = std::sync::atomic::AtomicUsize::new(0);

fn run_impl(i: &Inp) -> Got {
    let (phi, ev, stake, total) = (i.phi, ev_bytes(&i.ev), i.stake, i.total);
    let (tx, rx) = std::sync::mpsc::channel();
    std::thread::spawn(move || {
        let r = std::panic::catch_unwind(move || mithril_stm::verif_export::is_lottery_won(phi, ev, stake, total));
        let _ = tx.send(match r {
            Ok(b) => Got::Ret(b),
            Err(_) => Got::Panic,
        });
    });
    match rx.recv_timeout(std::time::Duration::from_secs(WATCHDOG_SECS)) {
        Ok(g) => g,
        Err(_) => {
            TIMEOUTS.fetch_add(1, std::sync::atomic::Ordering::SeqCst);
            Got::Timeout
        }
    }
}

/// The same evaluation, but as the LAST of a sequence of evaluations on one thread: the decision must
/// be a function of its four inputs, whatever was evaluated before (memoised intermediate values,
/// thread-local or global state).  The primers share all but one parameter with the input.
fn run_after(primers: &[Inp], i: &Inp) -> Got {
    let seq: Vec<(f64, [u8; 64], u64, u64)> =
        primers.iter().chain(std::iter::once(i)).map(|p| (p.phi, ev_bytes(&p.ev), p.stake, p.total)).collect();
    let (tx, rx) = std::sync::mpsc::channel();
    std::thread::spawn(move || {
        let mut last = Got::Panic;
        for (phi, ev, stake, total) in seq {
            let r = std::panic::catch_unwind(move || mithril_stm::verif_export::is_lottery_won(phi, ev, stake, total));
            last = match r {
                Ok(b) => Got::Ret(b),
                Err(_) => Got::Panic,
            };
        }
        let _ = tx.send(last);
    });
    match rx.recv_timeout(std::time::Duration::from_secs(WATCHDOG_SECS)) {
        Ok(g) => g,
        Err(_) => {
            TIMEOUTS.fetch_add(1, std::sync::atomic::Ordering::SeqCst);
            Got::Timeout
        }
    }
}
/// primer sequences for an input: each differs from it in exactly one parameter (or in none)
fn primer_sets(i: &Inp) -> Vec<(&'static str, Vec<Inp>)> {
    let with = |f: &dyn Fn(&mut Inp)| {
        let mut p = i.clone();
        f(&mut p);
        p
    };
    let mut out: Vec<(&'static str, Vec<Inp>)> = vec![];
    let t2 = i.total.saturating_mul(3).max(i.total);
    let t3 = (i.total / 7).max(i.stake).max(1);
    out.push(("same stake and phi_f, other total stakes", vec![with(&|p| p.total = t2), with(&|p| p.total = t3)]));
    let s2 = (i.stake / 2 + 1).min(i.total);
    let s3 = i.total - (i.total - i.stake) / 3;
    out.push(("same total and phi_f, other stakes", vec![with(&|p| p.stake = s2), with(&|p| p.stake = s3)]));
    let f2 = if i.phi > 0.5 { i.phi / 2.0 } else { (i.phi * 2.0 + 0.05).min(0.95) };
    out.push(("same stakes, other phi_f", vec![with(&|p| p.phi = f2), with(&|p| p.phi = 0.2)]));
    let e2 = &i.ev / BigInt::from(3u8);
    let e3 = clamp_ev(&i.ev + (&pow2(512) - &i.ev) / BigInt::from(2u8));
    out.push(("same stakes and phi_f, other draws, then itself", vec![with(&|p| p.ev = e2.clone()), with(&|p| p.ev = e3.clone()), i.clone()]));
    out
}

/// `(phi_f - 1.0).abs() < f64::EPSILON`, the code's shortcut test
fn shortcut(phi: f64) -> bool {
    (phi - 1.0).abs() < f64::EPSILON
}

/// the code's c, as the code computes it
fn code_c(phi: f64) -> f64 {
    (1.0 - phi).ln()
}

/// x = -(stake/total) * c as an exact rational (a, b), b > 0; None when c is not finite or total = 0
fn code_x(phi: f64, stake: u64, total: u64) -> Option<(BigInt, BigInt)> {
    let (cm, ce) = dyadic(code_c(phi))?;
    if total == 0 {
        return None;
    }
    let mut a = BigInt::from(stake) * BigInt::from(-cm);
    let mut b = BigInt::from(total);
    if ce >= 0 {
        a <<= ce as usize;
    } else {
        b <<= (-ce) as usize;
    }
    Some((a, b))
}

#[derive(Clone, Copy, PartialEq, Debug)]
enum Exact {
    Won,
    Lost,
    Unknown,
}

/// q < E  with q = 2^512 / (2^512 - ev)   <=>   2^512 * 2^P < (2^512 - ev) * E
fn exact_cmp(ev: &BigInt, e: &Iv) -> Exact {
    let rest = pow2(512) - ev;
    let rhs = pow2(512 + P);
    if &rest * &e.lo > rhs {
        Exact::Won
    } else if &rest * &e.hi < rhs {
        Exact::Lost
    } else {
        Exact::Unknown
    }
}

/// threshold draw: 2^512 * (1 - 1/E), clamped to [0, 2^512 - 1]
fn threshold(e: &Iv) -> BigInt {
    let mid: BigInt = (&e.lo + &e.hi) >> 1usize;
    let t = pow2(512) - fdiv(&pow2(512 + P), &mid);
    t.max(BigInt::zero()).min(pow2(512) - BigInt::one())
}

/// exp of the exact x = -(stake/total) * ln(1 - phi_f), phi_f taken as the exact rational it is.
/// None: outside (0,1) or not finite.  phi_f = 1 is handled by the caller.
fn true_exp(phi: f64, stake: u64, total: u64) -> Option<Iv> {
    let (pm, pe) = dyadic(phi)?;
    if total == 0 || pm < 0 {
        return None;
    }
    // y = 1 - pm * 2^pe = num / 2^s
    let (num, s) = if pe >= 0 {
        (BigInt::one() - (BigInt::from(pm) << (pe as usize)), 0i64)
    } else {
        (pow2((-pe) as u32) - BigInt::from(pm), (-pe) as i64)
    };
    if !num.is_positive() {
        return None;
    }
    let l = ln_dyadic(&num, s); // <= 0
    let nlo = (-&l.hi).max(BigInt::zero());
    let nhi = (-&l.lo).max(BigInt::zero());
    let (st, tt) = (BigInt::from(stake), BigInt::from(total));
    let xlo = fdiv(&(&nlo * &st), &tt);
    let xhi = cdiv(&(&nhi * &st), &tt);
    let one = pow2(P);
    Some(Iv { lo: exp_rat(&xlo, &one).lo, hi: exp_rat(&xhi, &one).hi })
}

/// Is there an iteration n >= 1 of the code's loop whose lost-threshold S_n + 3 t_{n+1} lies
/// (certainly) below q?  Part of the definition of the known class.
fn below_some_lost_threshold(ev: &BigInt, a: &BigInt, b: &BigInt) -> bool {
    let one = pow2(P);
    let rest = pow2(512) - ev;
    let rhs = pow2(512 + P);
    let mut thi = cdiv(&(&one * a), b); // t_1
    let mut shi = one.clone(); // S_0
    for n in 1u64..2000 {
        shi += &thi; // S_n
        thi = cdiv(&(&thi * a), &(b * BigInt::from(n + 1))); // t_{n+1}
        let hi_n = &shi + &thi * BigInt::from(3u8);
        if &rest * &hi_n < rhs {
            return true; // hi_n < q
        }
        if &rest * &shi > rhs {
            return false; // S_n > q: no later threshold can be below q
        }
    }
    false
}

struct Item {
    kind: String,
    inp: Inp,
    /// monotonicity: (relation, the base input).  "more-stake": this input has more stake than
    /// the base, same draw; "smaller-draw": this input has a smaller draw, same stake.
    base: Option<(&'static str, Inp)>,
}

struct Verdict {
    holds: Option<bool>,
    why: Option<String>,
    known: Option<String>,
}

fn in_domain(i: &Inp) -> bool {
    i.phi >= 0.0 && i.phi <= 1.0 && i.total > 0 && i.stake <= i.total
}

/// The property judged on the implementation's answer, from the inputs only.
fn judge(item: &Item, got: Got) -> Verdict {
    let i = &item.inp;
    let ok = Verdict { holds: Some(true), why: None, known: None };
    let fail = |why: String, known: Option<&str>| Verdict { holds: Some(false), why: Some(why), known: known.map(|s| s.to_string()) };
    if !in_domain(i) {
        return Verdict { holds: None, why: None, known: None };
    }
    let dec = match got {
        Got::Ret(b) => b,
        Got::Panic => return fail("is_lottery_won panicked on an in-domain input".into(), None),
        Got::Timeout => return fail(format!("is_lottery_won did not return within {} s on an in-domain input", WATCHDOG_SECS), None),
    };
    // phi_f = 1: always won
    if i.phi == 1.0 {
        return if dec { ok } else { fail("phi_f = 1 but the lottery is lost".into(), None) };
    }
    // zero stake: always lost (phi_f < 1)
    if i.stake == 0 && dec && !shortcut(i.phi) {
        return fail("zero stake wins the lottery".into(), None);
    }
    // monotonicity against the base input
    if let Some((rel, base)) = &item.base {
        if let Got::Ret(true) = run_impl(base) {
            if !dec {
                return fail(format!("won -> lost flip: base (stake {}, draw {}) wins, this input with {} loses", base.stake, base.ev, rel), None);
            }
        }
    }
    // (b) exact comparison with the true threshold, outside the float band 2^-46
    let t_exp = true_exp(i.phi, i.stake, i.total);
    if shortcut(i.phi) {
        // phi_f = 1 - 2^-53: the code answers `true` without looking at draw or stake
        if let Some(e) = &t_exp {
            if exact_cmp(&i.ev, e) == Exact::Lost && dec {
                let far = (&i.ev - threshold(e)).abs() > pow2(512 - 46);
                if far {
                    return fail("phi_f = 1 - 2^-53 is treated as 1: won although draw/2^512 > 1 - (1-phi_f)^(stake/total)".into(), Some(KNOWN_SHORTCUT));
                }
            }
        }
        return if dec { ok } else { fail("shortcut input lost".into(), None) };
    }
    // (a) exact comparison with the threshold for the code's own c (no band except the cap's)
    let Some((a, b)) = code_x(i.phi, i.stake, i.total) else {
        return fail("c not finite on an in-domain input".into(), None);
    };
    if a.is_negative() {
        return Verdict { holds: None, why: None, known: None };
    }
    let exact_code = if a.is_zero() { Exact::Lost } else { exact_cmp(&i.ev, &exp_rat(&a, &b)) };
    // beyond the proved validity range x <= 53/20 of the lost exit (C08_lost_sound)
    let x_gt_2 = &a * BigInt::from(20u8) > &b * BigInt::from(53u8);
    match (exact_code, dec) {
        (Exact::Won, false) => {
            if x_gt_2 && below_some_lost_threshold(&i.ev, &a, &b) {
                return fail(
                    format!("lost although draw/2^512 < 1 - exp(stake/total * c): the 3*term error bound is not a tail bound for x = {:.4} > 2.65", ratio_f64(&a, &b)),
                    Some(KNOWN_LARGE_X),
                );
            }
            return fail(format!("lost although draw/2^512 < 1 - exp(stake/total * c), x = {:.4}", ratio_f64(&a, &b)), None);
        }
        (Exact::Lost, true) => {
            return fail(format!("won although draw/2^512 > 1 - exp(stake/total * c), x = {:.4}", ratio_f64(&a, &b)), None);
        }
        _ => {}
    }
    if let Some(e) = &t_exp {
        let far = (&i.ev - threshold(e)).abs() > pow2(512 - 46);
        if far {
            let ex = if i.stake == 0 { Exact::Lost } else { exact_cmp(&i.ev, e) };
            if (ex == Exact::Won && !dec) || (ex == Exact::Lost && dec) {
                return fail(format!("decision {} differs from the exact comparison with 1 - (1-phi_f)^(stake/total) by more than 2^-46", dec), None);
            }
        }
    }
    ok
}

fn ratio_f64(a: &BigInt, b: &BigInt) -> f64 {
    let sh = (a.bits().max(b.bits()) as i64 - 900).max(0) as usize;
    (a >> sh).to_f64().unwrap_or(f64::NAN) / (b >> sh).to_f64().unwrap_or(f64::NAN)
}

fn model_term(i: &Inp) -> String {
    let (pm, pe) = match dyadic(i.phi) {
        Some(p) => p,
        None => return String::new(),
    };
    let c = match dyadic(code_c(i.phi)) {
        Some((cm, ce)) => format!("(Some ({}, {}))", coq::z(cm), coq::z(ce as i128)),
        None => "None".to_string(),
    };
    format!(
        "C08.Model.run {} {} {} {}%Z {}%Z {}%Z",
        coq::z(pm),
        coq::z(pe as i128),
        c,
        i.ev,
        i.stake,
        i.total
    )
}

fn rand_ev(rng: &mut Rng) -> BigInt {
    BigInt::from_bytes_le(Sign::Plus, &rng.bytes(64))
}

fn clamp_ev(ev: BigInt) -> BigInt {
    ev.max(BigInt::zero()).min(pow2(512) - BigInt::one())
}

fn main() {
    let args = hc::parse_args();
    let mut rng = Rng::new(args.seed);
    let mut sink = Sink::new(&args);
    std::panic::set_hook(Box::new(|_| {})); // expected panics (total = 0, NaN) are observations
    let max = u64::MAX;
    let mut items: Vec<Item> = vec![];

    // ---- fixed witnesses (always first) -------------------------------------------------
    // known finding: a party holding all the stake at phi_f = 0.95 loses draws in [0.9427, 0.95)
    items.push(Item {
        kind: "witness-large-x".into(),
        inp: Inp { phi: 0.95, ev: (pow2(512) * BigInt::from(945u32)) / BigInt::from(1000u32), stake: 1, total: 1 },
        base: None,
    });
    // known finding: phi_f = 1 - 2^-53 is treated as 1
    items.push(Item {
        kind: "witness-phi-shortcut".into(),
        inp: Inp { phi: 1.0 - f64::EPSILON / 2.0, ev: pow2(512) - BigInt::one(), stake: 1, total: 100 },
        base: None,
    });
    for (phi, stake, total) in [(1.0f64, 0u64, 5u64), (1.0, 5, 5), (0.2, 0, 7), (0.0, 3, 7), (0.2, 1, 0), (0.2, 0, 0)] {
        for ev in [BigInt::zero(), pow2(512) - BigInt::one(), pow2(511)] {
            items.push(Item { kind: "corner".into(), inp: Inp { phi, ev, stake, total }, base: None });
        }
    }

    // ---- configurations -------------------------------------------------------------------
    let n_cfg = if args.thorough { 700 } else { 34 };
    let near1 = [0.9, 0.92, 0.93, 0.94, 0.95, 0.99, 0.999999, 1.0 - f64::EPSILON, 1.0 - f64::EPSILON / 2.0, 1.0];
    let near0 = [f64::MIN_POSITIVE, 5e-324, 1e-300, 1e-17, f64::EPSILON / 2.0, f64::EPSILON, 1e-9, 1e-3, 0.0];
    let typical = [0.2, 0.05, 0.65, 0.5];
    let totals = [1u64, 2, 3, 1000, 1 << 32, 45_000_000_000_000_000, 1 << 63, max - 1, max];
    for cfg_no in 0..n_cfg {
        let class = cfg_no % 6;
        let (ckind, phi, stake, total): (&str, f64, u64, u64) = match class {
            0 => {
                let phi = if rng.coin() { *rng.pick(&typical) } else { 0.01 + (rng.below(8900) as f64) / 10000.0 };
                let total = (rng.next() >> rng.below(63)).max(1);
                let stake = if rng.coin() { rng.below(total) + 1 } else { (total >> rng.below(40)).max(1) };
                ("typical", phi, stake, total)
            }
            1 => {
                let total = *rng.pick(&totals);
                let stake = *rng.pick(&[0u64, 1, total / 3, total - 1, total]);
                let phi = if rng.coin() { *rng.pick(&typical) } else { *rng.pick(&near1) };
                ("boundary-stake", phi, stake.min(total), total)
            }
            2 => {
                let total = if rng.coin() { *rng.pick(&totals) } else { rng.next().max(1) };
                ("phi-near-0", *rng.pick(&near0), rng.below(total) + 1, total)
            }
            3 => {
                let total = if rng.coin() { *rng.pick(&totals) } else { rng.next().max(1) };
                let stake = if rng.chance(2, 3) { total - rng.below(total / 2 + 1) } else { rng.below(total) + 1 };
                ("phi-near-1", *rng.pick(&near1), stake, total)
            }
            4 => {
                // x = -(stake/total) ln(1-phi_f) aimed at [1.2, 3.2]: both sides of the lost-exit's validity range
                let phi = *rng.pick(&[0.9, 0.92, 0.93, 0.94, 0.95, 0.99]);
                let target = 1.2 + (rng.below(2000) as f64) / 1000.0;
                let total = 1_000_000_007u64 + rng.below(1 << 40);
                let frac = (target / -code_c(phi)).min(1.0);
                ("x-around-validity-edge", phi, ((total as f64) * frac) as u64, total)
            }
            _ => {
                let phi = *rng.pick(&[1.0 + f64::EPSILON, 1.5, f64::NAN, f64::INFINITY, f64::NEG_INFINITY, -0.5, -1e-9, 0.2, 0.2]);
                let total = *rng.pick(&[0u64, 1, 10, max]);
                let stake = if rng.coin() { rng.below(total.max(1)) } else { total.saturating_add(rng.below(10)) };
                ("out-of-domain", phi, stake, total)
            }
        };
        // the decision threshold of the code's own c
        let xr = code_x(phi, stake, total).filter(|(a, _)| !a.is_negative());
        let ev_star = xr.as_ref().map(|(a, b)| threshold(&exp_rat(a, b)));
        let mut draws: Vec<(String, BigInt)> = vec![("uniform".into(), rand_ev(&mut rng))];
        let n_conc = if args.thorough { 5 } else { 4 };
        if let Some(t) = &ev_star {
            for j in 0..n_conc {
                let k = if j == 0 { rng.range(3, 8) } else { rng.range(8, 200) } as u32;
                let d = pow2(512 - k) + (rand_ev(&mut rng) >> ((k + 3) as usize));
                let ev = if rng.coin() { t - d } else { t + d };
                draws.push((format!("threshold+-2^-{}", k), clamp_ev(ev)));
            }
            let off = BigInt::from(rng.below(3) as i64 - 1);
            draws.push(("threshold+-1".into(), clamp_ev(t + off)));
        } else {
            draws.push(("uniform".into(), rand_ev(&mut rng)));
        }
        if rng.chance(1, 4) {
            draws.push(("extreme-draw".into(), if rng.coin() { BigInt::zero() } else { pow2(512) - BigInt::one() }));
        }
        for (dk, ev) in draws {
            let inp = Inp { phi, ev: ev.clone(), stake, total };
            items.push(Item { kind: format!("{}/{}", ckind, dk), inp: inp.clone(), base: None });
            // monotonicity neighbours (only where a threshold exists)
            if ev_star.is_some() && rng.chance(1, 3) {
                if stake < total && rng.coin() {
                    let room = total - stake;
                    let delta = match rng.below(3) {
                        0 => 1,
                        1 => rng.below(room) + 1,
                        _ => (room >> rng.below(64)).max(1),
                    };
                    items.push(Item {
                        kind: format!("{}/mono-more-stake", ckind),
                        inp: Inp { stake: stake + delta, ..inp.clone() },
                        base: Some(("more stake", inp.clone())),
                    });
                } else {
                    let delta = match rng.below(3) {
                        0 => BigInt::one(),
                        1 => pow2(rng.range(0, 511) as u32),
                        _ => rand_ev(&mut rng) >> (rng.below(512) as usize),
                    };
                    items.push(Item {
                        kind: format!("{}/mono-smaller-draw", ckind),
                        inp: Inp { ev: clamp_ev(&ev - delta), ..inp.clone() },
                        base: Some(("a smaller draw", inp.clone())),
                    });
                }
            }
        }
    }

    for item in items {
        // two calls that never came back are enough evidence: stop instead of piling up threads
        if TIMEOUTS.load(std::sync::atomic::Ordering::SeqCst) >= 2 {
            break;
        }
        let Some(id) = sink.wants() else { continue };
        let i = &item.inp;
        let got = run_impl(i);
        let mut v = judge(&item, got);
        // purity: the same decision as the last of a sequence of related evaluations on one thread
        let mut history_note = serde_json::json!(null);
        if in_domain(i) && matches!(got, Got::Ret(_)) {
            for (what, primers) in primer_sets(i) {
                if !primers.iter().all(in_domain) {
                    continue;
                }
                let again = run_after(&primers, i);
                if again != got {
                    history_note = serde_json::json!({"primers": what, "primer_inputs": primers.iter().map(|p| serde_json::json!({"phi_f": format!("{:e}", p.phi), "stake": p.stake, "total": p.total, "ev": p.ev.to_string()})).collect::<Vec<_>>(), "alone": format!("{:?}", got), "after": format!("{:?}", again)});
                    if v.holds != Some(false) {
                        v = Verdict { holds: Some(false), why: Some(format!("the decision is not a function of its inputs: evaluated alone {:?}, evaluated after earlier evaluations on the same thread ({}) {:?}", got, what, again)), known: None };
                    }
                    break;
                }
            }
        }
        let term = model_term(i);
        let impl_obs = match got {
            Got::Ret(b) => coq::ores_ok(coq::ob(b)),
            Got::Panic => coq::ores_panic(),
            Got::Timeout => coq::ol(&[coq::oz(3)]),
        };
        let won_json = match got {
            Got::Ret(b) => serde_json::json!(b),
            Got::Panic => serde_json::json!("panic"),
            Got::Timeout => serde_json::json!("timeout"),
        };
        let x = code_x(i.phi, i.stake, i.total).map(|(a, b)| ratio_f64(&a, &b));
        sink.push(Case {
            id,
            kind: item.kind.clone(),
            desc: serde_json::json!({
                "phi_f": format!("{:e}", i.phi), "phi_f_bits": format!("{:#018x}", i.phi.to_bits()),
                "ev": i.ev.to_string(), "ev_over_2^512": ratio_f64(&i.ev, &pow2(512)),
                "stake": i.stake, "total": i.total, "c": format!("{:e}", code_c(i.phi)), "x": x,
                "won": won_json,
                "history": history_note,
                "mono_base": item.base.as_ref().map(|(r, b)| serde_json::json!({"relation": r, "stake": b.stake, "ev": b.ev.to_string()})),
            }),
            model: if term.is_empty() { None } else { Some(term) },
            impl_obs,
            holds: v.holds,
            why: v.why,
            known: v.known,
            nontrivial: in_domain(i) && i.stake > 0 && !shortcut(i.phi) && i.phi > 0.0,
            key: format!("{:x}/{}/{}/{}", i.phi.to_bits(), i.stake, i.total, i.ev),
        });
    }
    sink.finish();
}
