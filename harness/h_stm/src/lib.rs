//! harness crate h_stm (binaries in src/bin)
