//! Shared by the C01 and C02 harnesses (included with `#[path]`): a pool of real BLS keys, real
//! registrations ("worlds") built through the public mithril-stm API, an INDEPENDENT
//! re-computation of the registration Merkle tree and of the lottery draw (Blake2b from the
//! `blake2` crate, not through mithril-stm), and the (de)composition of single / aggregate
//! signatures through their serde (JSON) form.
#![allow(dead_code)]
use blake2::{digest::consts::U32, Blake2b, Blake2b512, Digest};
use mithril_stm::{
    AggregateSignature, AggregateSignatureType, AggregateVerificationKey, AncillaryGenesisData,
    AncillaryProofInput, Clerk, ClosedKeyRegistration, Initializer, KeyRegistration,
    MithrilMembershipDigest, Parameters, Signer, SingleSignature,
};
use rand_chacha::ChaCha20Rng;
use rand_core::SeedableRng;
use serde_json::{json, Value};
use std::collections::HashMap;

pub type D = MithrilMembershipDigest;

pub struct Pool {
    pub inits: Vec<Initializer>,
    pub vk: Vec<Vec<u8>>,
}

impl Pool {
    pub fn new(seed: u64, n: usize) -> Pool {
        let mut rng = ChaCha20Rng::seed_from_u64(seed ^ 0xC01C_02C0_1C02);
        let p = Parameters { m: 1, k: 1, phi_f: 0.5 };
        let inits: Vec<Initializer> = (0..n).map(|_| Initializer::new(p, 1, &mut rng)).collect();
        let vk = inits
            .iter()
            .map(|i| i.get_verification_key_proof_of_possession_for_concatenation().vk.to_bytes().to_vec())
            .collect();
        Pool { inits, vk }
    }
    /// model id of a key: pool index + 1; unknown bytes: None
    pub fn id_of(&self, vk: &[u8]) -> Option<u64> {
        self.vk.iter().position(|x| x[..] == *vk).map(|p| p as u64 + 1)
    }
}

pub fn h32(parts: &[&[u8]]) -> Vec<u8> {
    let mut h = Blake2b::<U32>::new();
    for p in parts {
        h.update(p);
    }
    h.finalize().to_vec()
}

/// `ev = Blake2b-512("map" || msg||root || index (LE) || sigma)`
pub fn draw(msgp: &[u8], index: u64, sigma: &[u8]) -> [u8; 64] {
    let h = Blake2b512::new()
        .chain_update(b"map")
        .chain_update(msgp)
        .chain_update(index.to_le_bytes())
        .chain_update(sigma)
        .finalize();
    let mut o = [0u8; 64];
    o.copy_from_slice(&h);
    o
}

/// the real lottery decision (C08) on the independently recomputed draw
pub fn won(phi_f: f64, msgp: &[u8], index: u64, sigma: &[u8], stake: u64, total: u64) -> bool {
    mithril_stm::verif_export::is_lottery_won(phi_f, draw(msgp, index, sigma), stake, total)
}

pub fn np2(n: usize) -> u64 {
    (n as u64).next_power_of_two()
}

pub struct World {
    pub id: usize,
    pub params: Parameters,
    /// registration order: (pool index, stake)
    pub members: Vec<(usize, u64)>,
    pub closed: ClosedKeyRegistration,
    /// parallel to `members`
    pub signers: Vec<Signer<D>>,
    pub clerk: Clerk<D>,
    pub avk: AggregateVerificationKey<D>,
    /// tree order: (pool index, stake)
    pub leaves: Vec<(usize, u64)>,
    pub leaf_bytes: Vec<Vec<u8>>,
    pub total: u64,
    pub root: Vec<u8>,
    /// heap of digests recomputed here (length n + np2(n) - 1)
    pub nodes: Vec<Vec<u8>>,
    pub pos_of: HashMap<Vec<u8>, u64>,
}

impl World {
    pub fn new(id: usize, pool: &Pool, members: &[(usize, u64)], params: Parameters) -> World {
        let mut key_reg = KeyRegistration::initialize();
        let mut inits = vec![];
        for (pi, stake) in members {
            let mut i = pool.inits[*pi].clone();
            i.stake = *stake;
            i.parameters = params;
            key_reg.register_by_entry(&i.clone().try_into().expect("registration entry")).expect("register");
            inits.push(i);
        }
        let closed = key_reg.close_registration(&params).expect("close registration");
        let signers: Vec<Signer<D>> =
            inits.into_iter().map(|i| i.try_create_signer::<D>(&closed).expect("signer")).collect();
        let clerk = Clerk::new_clerk_from_closed_key_registration(&params, &closed);
        let avk = clerk.compute_aggregate_verification_key();
        let mut leaves = vec![];
        let mut leaf_bytes = vec![];
        for e in closed.closed_registration_entries.iter() {
            let vk = e.get_verification_key_for_concatenation().to_bytes().to_vec();
            let pi = pool.id_of(&vk).expect("registered key is in the pool") as usize - 1;
            leaves.push((pi, e.get_stake()));
            let mut b = vk;
            b.extend_from_slice(&e.get_stake().to_be_bytes());
            leaf_bytes.push(b);
        }
        let n = leaves.len();
        let off = np2(n) as usize - 1;
        let nr = n + off;
        let pad = h32(&[&[0u8]]);
        let mut nodes = vec![vec![]; nr];
        for i in 0..n {
            nodes[off + i] = h32(&[&leaf_bytes[i]]);
        }
        for p in (0..off).rev() {
            let l = if 2 * p + 1 < nr { nodes[2 * p + 1].clone() } else { pad.clone() };
            let r = if 2 * p + 2 < nr { nodes[2 * p + 2].clone() } else { pad.clone() };
            nodes[p] = h32(&[&l, &r]);
        }
        let mut pos_of = HashMap::new();
        for (p, d) in nodes.iter().enumerate().rev() {
            pos_of.insert(d.clone(), p as u64);
        }
        let root = nodes[0].clone();
        let total = closed.total_stake;
        // the tree recomputed here is the tree the code commits to
        let cav = serde_json::to_value(avk.to_concatenation_aggregate_verification_key()).expect("avk json");
        let code_root: Vec<u8> = serde_json::from_value(cav["mt_commitment"]["root"].clone()).expect("root");
        assert_eq!(code_root, root, "independent tree differs from the code's commitment");
        assert_eq!(cav["total_stake"].as_u64(), Some(total));
        World { id, params, members: members.to_vec(), closed, signers, clerk, avk, leaves, leaf_bytes, total, root, nodes, pos_of }
    }
    pub fn n(&self) -> usize {
        self.leaves.len()
    }
    pub fn msgp(&self, msg: &[u8]) -> Vec<u8> {
        let mut v = msg.to_vec();
        v.extend_from_slice(&self.root);
        v
    }
    /// Coq list of the committed leaves `[[vk; stake]; ...]`
    pub fn coq_leaves(&self) -> String {
        let items: Vec<String> =
            self.leaves.iter().map(|(pi, st)| format!("[{}%N; {}%N]", pi + 1, st)).collect();
        format!("[{}]", items.join("; "))
    }
    /// tree position of a pool key, if registered
    pub fn pos_of_key(&self, pi: usize) -> Option<usize> {
        self.leaves.iter().position(|(p, _)| *p == pi)
    }
    /// signer (registration order) of a pool key
    pub fn signer_of_key(&self, pi: usize) -> Option<&Signer<D>> {
        self.members.iter().position(|(p, _)| *p == pi).map(|i| &self.signers[i])
    }
    /// honest single signatures of every member that wins at least one index
    pub fn sign_all(&self, msg: &[u8]) -> Vec<SingleSignature> {
        self.signers.iter().filter_map(|s| s.create_single_signature(msg).ok()).collect()
    }
    pub fn aggregate(&self, sigs: &[SingleSignature], msg: &[u8]) -> anyhow::Result<AggregateSignature<D>> {
        self.clerk
            .aggregate_signatures_with_type(
                sigs,
                msg,
                AggregateSignatureType::Concatenation,
                AncillaryProofInput::new(None, AncillaryGenesisData::new()),
            )
            .map(|x| x.0)
    }
}

/// one entry of a concatenation proof as it travels: everything is bytes / integers
#[derive(Clone, Debug, PartialEq)]
pub struct Sg {
    pub sigma: Vec<u8>,
    pub idx: Vec<u64>,
    pub slot: u64,
    pub vk: Vec<u8>,
    pub stake: u64,
}
#[derive(Clone, Debug, PartialEq)]
pub struct Ag {
    pub sigs: Vec<Sg>,
    pub vals: Vec<Vec<u8>>,
    pub pidx: Vec<u64>,
}

pub fn ssig_parts(s: &SingleSignature) -> (Vec<u8>, Vec<u64>, u64) {
    (s.get_concatenation_signature_sigma().to_bytes().to_vec(), s.get_concatenation_signature_indices(), s.signer_index)
}
pub fn ssig_json(sigma: &[u8], idx: &[u64], slot: u64) -> Value {
    json!({"sigma": sigma, "indexes": idx, "signer_index": slot})
}
pub fn ssig_build(sigma: &[u8], idx: &[u64], slot: u64) -> Option<SingleSignature> {
    serde_json::from_value(ssig_json(sigma, idx, slot)).ok()
}

impl Ag {
    pub fn to_json(&self) -> Value {
        json!({
            "signatures": self.sigs.iter().map(|s| json!([ssig_json(&s.sigma, &s.idx, s.slot), [s.vk, s.stake]])).collect::<Vec<_>>(),
            "batch_proof": {"values": self.vals, "indices": self.pidx, "hasher": null}
        })
    }
    pub fn of_json(v: &Value) -> Ag {
        let sigs = v["signatures"]
            .as_array()
            .expect("signatures")
            .iter()
            .map(|e| Sg {
                sigma: serde_json::from_value(e[0]["sigma"].clone()).expect("sigma"),
                idx: serde_json::from_value(e[0]["indexes"].clone()).expect("indexes"),
                slot: e[0]["signer_index"].as_u64().expect("signer_index"),
                vk: serde_json::from_value(e[1][0].clone()).expect("vk"),
                stake: e[1][1].as_u64().expect("stake"),
            })
            .collect();
        Ag {
            sigs,
            vals: serde_json::from_value(v["batch_proof"]["values"].clone()).expect("values"),
            pidx: serde_json::from_value(v["batch_proof"]["indices"].clone()).expect("indices"),
        }
    }
    pub fn of_real(a: &AggregateSignature<D>) -> Ag {
        Ag::of_json(&serde_json::to_value(a).expect("aggregate to json"))
    }
    /// decode through serde_json (the JSON wire form)
    pub fn real(&self) -> Option<AggregateSignature<D>> {
        serde_json::from_str(&self.to_json().to_string()).ok()
    }
    /// harness-written legacy byte form (type prefix 0, byte-packed)
    pub fn legacy_bytes(&self) -> Vec<u8> {
        fn be(x: u64) -> [u8; 8] {
            x.to_be_bytes()
        }
        let mut out = vec![0u8];
        out.extend_from_slice(&be(self.sigs.len() as u64));
        for s in &self.sigs {
            let mut sig = vec![];
            sig.extend_from_slice(&be(s.idx.len() as u64));
            for i in &s.idx {
                sig.extend_from_slice(&be(*i));
            }
            sig.extend_from_slice(&s.sigma);
            sig.extend_from_slice(&be(s.slot));
            let mut sr = vec![];
            sr.extend_from_slice(&be(s.vk.len() as u64 + 8));
            sr.extend_from_slice(&s.vk);
            sr.extend_from_slice(&be(s.stake));
            sr.extend_from_slice(&be(sig.len() as u64));
            sr.extend_from_slice(&sig);
            out.extend_from_slice(&be(sr.len() as u64));
            out.extend_from_slice(&sr);
        }
        out.extend_from_slice(&be(self.vals.len() as u64));
        out.extend_from_slice(&be(self.pidx.len() as u64));
        for v in &self.vals {
            out.extend_from_slice(v);
        }
        for i in &self.pidx {
            out.extend_from_slice(&be(*i));
        }
        out
    }
}

pub fn hexs(b: &[u8]) -> String {
    hex::encode(b)
}

// ------------------------------------------------------------------------------------------------
// C01 tie check of the idealisation S-agg: an INDEPENDENT reference implementation of the formula of
// `BlsSignature::aggregate` (mithril-stm/src/signature_scheme/bls_multi_signature/signature.rs),
// written with the low-level `blst` point functions and the `blake2` crate only (no mithril-stm):
//   c_i   = Blake2b-128(sigma_0 || ... || sigma_{n-1} || i as usize, big endian)   (i = 0..n-1)
//   sigma = sum_i c_i * sigma_i in G1,   vk = sum_i c_i * vk_i in G2,
// where the 16 hash bytes are the scalar in LITTLE-endian byte order (blst's convention for
// `p1_affines::mult(&scalars, 128)`); n = 1 returns the pair unchanged.
// ------------------------------------------------------------------------------------------------
pub mod blsref {
    use blake2::{digest::consts::U16, Blake2b, Digest};
    use blst::{
        blst_p1, blst_p1_add_or_double, blst_p1_affine, blst_p1_cneg, blst_p1_compress, blst_p1_from_affine,
        blst_p1_generator, blst_p1_mult, blst_p1_uncompress, blst_p2, blst_p2_add_or_double, blst_p2_affine,
        blst_p2_compress, blst_p2_from_affine, blst_p2_mult, blst_p2_uncompress, BLST_ERROR,
    };

    pub fn p1_of(b: &[u8]) -> Option<blst_p1> {
        if b.len() != 48 {
            return None;
        }
        let mut a = blst_p1_affine::default();
        let mut p = blst_p1::default();
        unsafe {
            if blst_p1_uncompress(&mut a, b.as_ptr()) != BLST_ERROR::BLST_SUCCESS {
                return None;
            }
            blst_p1_from_affine(&mut p, &a);
        }
        Some(p)
    }
    pub fn p1_bytes(p: &blst_p1) -> Vec<u8> {
        let mut o = [0u8; 48];
        unsafe { blst_p1_compress(o.as_mut_ptr(), p) };
        o.to_vec()
    }
    /// `scalar`: little-endian bytes
    pub fn p1_mul(p: &blst_p1, scalar: &[u8]) -> blst_p1 {
        let mut o = blst_p1::default();
        unsafe { blst_p1_mult(&mut o, p, scalar.as_ptr(), scalar.len() * 8) };
        o
    }
    pub fn p1_add(a: &blst_p1, b: &blst_p1) -> blst_p1 {
        let mut o = blst_p1::default();
        unsafe { blst_p1_add_or_double(&mut o, a, b) };
        o
    }
    pub fn p1_neg(a: &blst_p1) -> blst_p1 {
        let mut o = *a;
        unsafe { blst_p1_cneg(&mut o, true) };
        o
    }
    /// t * G1 generator (t little-endian bytes): a point of the prime-order subgroup
    pub fn g1_times(t: &[u8]) -> blst_p1 {
        let g = unsafe { *blst_p1_generator() };
        p1_mul(&g, t)
    }
    pub fn p2_of(b: &[u8]) -> Option<blst_p2> {
        if b.len() != 96 {
            return None;
        }
        let mut a = blst_p2_affine::default();
        let mut p = blst_p2::default();
        unsafe {
            if blst_p2_uncompress(&mut a, b.as_ptr()) != BLST_ERROR::BLST_SUCCESS {
                return None;
            }
            blst_p2_from_affine(&mut p, &a);
        }
        Some(p)
    }
    pub fn p2_bytes(p: &blst_p2) -> Vec<u8> {
        let mut o = [0u8; 96];
        unsafe { blst_p2_compress(o.as_mut_ptr(), p) };
        o.to_vec()
    }
    pub fn p2_mul(p: &blst_p2, scalar: &[u8]) -> blst_p2 {
        let mut o = blst_p2::default();
        unsafe { blst_p2_mult(&mut o, p, scalar.as_ptr(), scalar.len() * 8) };
        o
    }
    pub fn p2_add(a: &blst_p2, b: &blst_p2) -> blst_p2 {
        let mut o = blst_p2::default();
        unsafe { blst_p2_add_or_double(&mut o, a, b) };
        o
    }

    fn h16(parts: &[&[u8]]) -> [u8; 16] {
        let mut h = Blake2b::<U16>::new();
        for p in parts {
            h.update(p);
        }
        let mut o = [0u8; 16];
        o.copy_from_slice(&h.finalize());
        o
    }
    /// the coefficients of today's source: every one depends on ALL the signatures
    pub fn coeff_all(sigmas: &[Vec<u8>], i: usize) -> [u8; 16] {
        let mut parts: Vec<&[u8]> = sigmas.iter().map(|s| &s[..]).collect();
        let ib = i.to_be_bytes();
        parts.push(&ib);
        h16(&parts)
    }
    /// weak family 1: a public constant per slot, independent of every signature
    pub fn coeff_const(i: usize) -> [u8; 16] {
        h16(&[&i.to_be_bytes()])
    }
    /// weak family 2: depends on the slot's own signature only
    pub fn coeff_own(sigma: &[u8], i: usize) -> [u8; 16] {
        h16(&[sigma, &i.to_be_bytes()])
    }

    /// reference of `BlsSignature::aggregate`: (aggregate vk bytes (96), aggregate sigma bytes (48));
    /// `None` where the real function returns an error (length mismatch / empty) or a point does not decode
    pub fn aggregate(vks: &[Vec<u8>], sigmas: &[Vec<u8>]) -> Option<(Vec<u8>, Vec<u8>)> {
        if vks.len() != sigmas.len() || vks.is_empty() {
            return None;
        }
        if vks.len() < 2 {
            return Some((vks[0].clone(), sigmas[0].clone()));
        }
        let mut acc1: Option<blst_p1> = None;
        let mut acc2: Option<blst_p2> = None;
        for i in 0..vks.len() {
            let c = coeff_all(sigmas, i);
            let s = p1_mul(&p1_of(&sigmas[i])?, &c);
            let v = p2_mul(&p2_of(&vks[i])?, &c);
            acc1 = Some(match acc1 {
                None => s,
                Some(a) => p1_add(&a, &s),
            });
            acc2 = Some(match acc2 {
                None => v,
                Some(a) => p2_add(&a, &v),
            });
        }
        Some((p2_bytes(&acc2?), p1_bytes(&acc1?)))
    }
}
