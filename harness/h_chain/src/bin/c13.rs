//! C13 correspondence harness: imported chain data converges under roll-backs.
//!
//! Real `CardanoChainDataImporter` (blocks/transactions importer, block-range importers,
//! `CardanoBlockScanner` + `ChainReaderBlockStreamer`) + real `CardanoTransactionRepository`
//! on a file-backed SQLite pool + the signable builders' `compute_merkle_map_from_block_range_roots`,
//! driven by a scripted chain-sync server (`Server`, the environment model of coq/C13/Model.v).
//! The `ChainDataStore` / retriever impls are a verbatim copy of the aggregator's thin wrapper
//! (`AggregatorCardanoChainDataRepository`), which is not reachable from this crate's dependencies.
use std::collections::{BTreeSet, HashMap};
use std::ops::Range;
use std::path::PathBuf;
use std::sync::atomic::{AtomicBool, Ordering};
use std::sync::{Arc, Mutex as StdMutex};

use async_trait::async_trait;
use hc::{coq, Case, Rng, Sink};
use mithril_cardano_node_chain::chain_importer::{CardanoChainDataImporter, ChainDataImporter, ChainDataStore};
use mithril_cardano_node_chain::chain_reader::ChainBlockReader;
use mithril_cardano_node_chain::chain_scanner::CardanoBlockScanner;
use mithril_cardano_node_chain::entities::{ChainBlockNextAction, RawCardanoPoint, ScannedBlock};
use mithril_common::crypto_helper::{MKTreeNode, MKTreeStoreInMemory};
use mithril_common::entities::{
    BlockNumber, BlockRange, CardanoBlockTransactionMkTreeNode, CardanoBlockWithTransactions, CardanoTransaction,
    ChainPoint, SlotNumber,
};
use mithril_common::signable_builder::{BlockRangeRootRetriever, LegacyBlockRangeRootRetriever};
use mithril_common::StdResult;
use mithril_persistence::database::repository::CardanoTransactionRepository;
use mithril_persistence::sqlite::{ConnectionBuilder, ConnectionOptions, SqliteConnectionPool};

// ---------------------------------------------------------------------------------------------
// blocks
#[derive(Clone, Debug, PartialEq)]
struct Blk {
    num: u64,
    slot: u64,
    bh: u64,
    txs: Vec<u64>,
}
fn bh_bytes(h: u64) -> Vec<u8> {
    h.to_be_bytes().to_vec()
}
fn tx_str(t: u64) -> String {
    format!("{:016x}", t)
}
impl Blk {
    fn scanned(&self) -> ScannedBlock {
        ScannedBlock::new(
            bh_bytes(self.bh),
            BlockNumber(self.num),
            SlotNumber(self.slot),
            self.txs.iter().map(|t| tx_str(*t)).collect::<Vec<String>>(),
        )
    }
    fn coq(&self) -> String {
        format!("B {} {} {} {}", coq::n(self.num), coq::n(self.slot), coq::n(self.bh), coq::list_n(&self.txs))
    }
    fn json(&self) -> serde_json::Value {
        serde_json::json!([self.num, self.slot, self.bh, self.txs])
    }
}
fn coq_blocks(bs: &[Blk]) -> String {
    coq::list(&bs.iter().map(|b| b.coq()).collect::<Vec<_>>())
}

// ---------------------------------------------------------------------------------------------
// chain-sync server (environment): mirrors coq/C13/Model.v `srv`
#[derive(Clone, Debug)]
struct Switch {
    keep: usize,
    bs: Vec<Blk>,
}
impl Switch {
    fn coq(&self) -> String {
        format!("Switch {}%nat {}", self.keep, coq_blocks(&self.bs))
    }
    fn json(&self) -> serde_json::Value {
        serde_json::json!({"keep": self.keep, "blocks": self.bs.iter().map(|b| b.json()).collect::<Vec<_>>()})
    }
}
struct Server {
    chain: Vec<Blk>,
    ptr: usize,
    back: bool,
    agency: bool,
    pending: Vec<(usize, Switch)>,
    // provenance (not part of the environment's behaviour)
    from_slot: Option<u64>,
    reads: u64,
    back_due_to_cut: bool,
    echo_confusion: bool,
}
impl Server {
    fn new(chain: Vec<Blk>) -> Self {
        Server {
            chain,
            ptr: 0,
            back: true,
            agency: true,
            pending: vec![],
            from_slot: None,
            reads: 0,
            back_due_to_cut: false,
            echo_confusion: false,
        }
    }
    fn mutate(&mut self, m: &Switch) {
        let keep = m.keep.min(self.chain.len());
        let cut = keep < self.ptr;
        self.chain.truncate(keep);
        self.chain.extend(m.bs.iter().cloned());
        if cut {
            self.ptr = keep;
            self.back = true;
            self.back_due_to_cut = true;
        }
    }
    fn tick(&mut self) {
        loop {
            match self.pending.first_mut() {
                Some((0, _)) => {
                    let (_, m) = self.pending.remove(0);
                    self.mutate(&m);
                }
                Some((k, _)) => {
                    *k -= 1;
                    return;
                }
                None => return,
            }
        }
    }
    fn point_at(&self, n: usize) -> RawCardanoPoint {
        if n == 0 {
            RawCardanoPoint::origin()
        } else {
            let b = &self.chain[n - 1];
            RawCardanoPoint::new(SlotNumber(b.slot), bh_bytes(b.bh))
        }
    }
    fn next(&mut self) -> Option<ChainBlockNextAction> {
        self.tick();
        self.reads += 1;
        if self.back {
            self.back = false;
            self.agency = true;
            let p = self.point_at(self.ptr);
            if self.back_due_to_cut && Some(*p.slot_number) == self.from_slot {
                // a genuine roll-back to the very slot the stream started from
                self.echo_confusion = true;
            }
            self.back_due_to_cut = false;
            Some(ChainBlockNextAction::RollBackward { rollback_point: p })
        } else if self.ptr < self.chain.len() {
            let b = self.chain[self.ptr].clone();
            self.ptr += 1;
            self.agency = true;
            Some(ChainBlockNextAction::RollForward { parsed_block: b.scanned() })
        } else {
            self.agency = false;
            None
        }
    }
    fn intersect(&mut self, p: &RawCardanoPoint) {
        self.from_slot = Some(*p.slot_number);
        if !self.agency {
            return;
        }
        let found = if p.is_origin() {
            Some(0)
        } else {
            self.chain
                .iter()
                .position(|b| b.slot == *p.slot_number && bh_bytes(b.bh) == p.block_hash)
                .map(|i| i + 1)
        };
        if let Some(i) = found {
            self.ptr = i;
            self.back = true;
            self.back_due_to_cut = false;
        }
    }
    fn reconnect(&mut self) {
        self.ptr = 0;
        self.back = true;
        self.agency = true;
        self.back_due_to_cut = false;
    }
}
struct Reader(Arc<StdMutex<Server>>);
#[async_trait]
impl ChainBlockReader for Reader {
    async fn set_chain_point(&mut self, point: &RawCardanoPoint) -> StdResult<()> {
        self.0.lock().unwrap().intersect(point);
        Ok(())
    }
    async fn get_next_chain_block(&mut self) -> StdResult<Option<ChainBlockNextAction>> {
        Ok(self.0.lock().unwrap().next())
    }
}

// ---------------------------------------------------------------------------------------------
// ChainDataStore + retrievers over the real repository (copy of the aggregator's wrapper)
struct Repo {
    inner: CardanoTransactionRepository,
    /// provenance: a roll-back reached the repository for a slot below every stored block
    deep: AtomicBool,
    /// provenance: a roll-back to the origin (slot 0) reached the repository while a block with slot 0 is stored
    origin0: AtomicBool,
}
#[async_trait]
impl ChainDataStore for Repo {
    async fn get_highest_beacon(&self) -> StdResult<Option<ChainPoint>> {
        self.inner.get_transaction_highest_chain_point().await
    }
    async fn get_highest_block_range(&self) -> StdResult<Option<BlockRange>> {
        let record = self.inner.retrieve_highest_block_range_root().await?;
        Ok(record.map(|record| record.range))
    }
    async fn get_highest_legacy_block_range(&self) -> StdResult<Option<BlockRange>> {
        let record = self.inner.retrieve_highest_legacy_block_range_root().await?;
        Ok(record.map(|record| record.range))
    }
    async fn store_blocks_and_transactions(&self, b: Vec<CardanoBlockWithTransactions>) -> StdResult<()> {
        self.inner.store_blocks_and_transactions(b).await
    }
    async fn get_blocks_and_transactions_in_range(
        &self,
        range: Range<BlockNumber>,
    ) -> StdResult<BTreeSet<CardanoBlockTransactionMkTreeNode>> {
        let records = self.inner.get_blocks_with_transactions_in_range_blocks(range).await?;
        Ok(records.into_iter().flat_map(|b| b.into_mk_tree_nodes()).collect())
    }
    async fn get_transactions_in_range(&self, range: Range<BlockNumber>) -> StdResult<Vec<CardanoTransaction>> {
        self.inner
            .get_transactions_in_range_blocks(range)
            .await
            .map(|v| v.into_iter().map(|record| record.into()).collect::<Vec<CardanoTransaction>>())
    }
    async fn store_block_range_roots(&self, block_ranges: Vec<(BlockRange, MKTreeNode)>) -> StdResult<()> {
        if !block_ranges.is_empty() {
            self.inner.create_block_range_roots(block_ranges).await?;
        }
        Ok(())
    }
    async fn store_legacy_block_range_roots(&self, block_ranges: Vec<(BlockRange, MKTreeNode)>) -> StdResult<()> {
        if !block_ranges.is_empty() {
            self.inner.create_legacy_block_range_roots(block_ranges).await?;
        }
        Ok(())
    }
    async fn remove_rolled_chain_data_and_block_range(&self, slot_number: SlotNumber) -> StdResult<()> {
        // instrumentation only: which branch the real repository is about to take
        if self.inner.get_closest_block_number_above_slot_number(slot_number).await?.is_none()
            && self.inner.get_transaction_highest_chain_point().await?.is_some()
        {
            self.deep.store(true, Ordering::SeqCst);
        }
        if slot_number == SlotNumber(0)
            && self.inner.get_closest_block_number_above_slot_number(slot_number).await?.is_some()
        {
            self.origin0.store(true, Ordering::SeqCst);
        }
        self.inner
            .remove_rolled_back_blocks_transactions_and_block_range_by_slot_number(slot_number)
            .await
    }
    async fn optimize(&self) -> StdResult<()> {
        self.inner.optimize()
    }
}
#[async_trait]
impl LegacyBlockRangeRootRetriever<MKTreeStoreInMemory> for Repo {
    async fn retrieve_block_range_roots<'a>(
        &'a self,
        up_to_beacon: BlockNumber,
    ) -> StdResult<Box<dyn Iterator<Item = (BlockRange, MKTreeNode)> + 'a>> {
        self.inner.retrieve_legacy_block_range_roots_up_to(up_to_beacon).await
    }
}
#[async_trait]
impl BlockRangeRootRetriever<MKTreeStoreInMemory> for Repo {
    async fn retrieve_block_range_roots<'a>(
        &'a self,
        up_to_beacon: BlockNumber,
    ) -> StdResult<Box<dyn Iterator<Item = (BlockRange, MKTreeNode)> + 'a>> {
        self.inner.retrieve_block_range_roots_up_to(up_to_beacon).await
    }
    async fn retrieve_block_ranges_nodes(
        &self,
        range: Range<BlockNumber>,
    ) -> StdResult<BTreeSet<CardanoBlockTransactionMkTreeNode>> {
        self.inner
            .get_blocks_with_transactions_in_range_blocks(range)
            .await
            .map(|v| v.into_iter().flat_map(|b| b.into_mk_tree_nodes()).collect())
    }
}

// ---------------------------------------------------------------------------------------------
// a node: SQLite file + repository + importer
struct Node {
    dir: PathBuf,
    repo: Arc<Repo>,
    server: Arc<StdMutex<Server>>,
    importer: CardanoChainDataImporter,
    max: usize,
}
fn logger() -> slog::Logger {
    slog::Logger::root(slog::Discard, slog::o!())
}
impl Node {
    fn new(dir: PathBuf, chain: Vec<Blk>, max: usize) -> Node {
        std::fs::create_dir_all(&dir).unwrap();
        // the migrations (several `vacuum`) are applied once to a template file that is copied for every node
        let template = dir.parent().unwrap().join("template.sqlite3");
        if !template.exists() {
            let tmp = dir.parent().unwrap().join("template-build.sqlite3");
            {
                let _c = ConnectionBuilder::open_file(&tmp)
                    .with_migrations(mithril_persistence::database::cardano_transaction_migration::get_migrations())
                    .with_options(&[ConnectionOptions::EnableForeignKeys])
                    .build()
                    .expect("template");
            }
            std::fs::rename(&tmp, &template).unwrap();
        }
        std::fs::copy(&template, dir.join("cardano_tx.sqlite3")).unwrap();
        let pool: SqliteConnectionPool = ConnectionBuilder::open_file(&dir.join("cardano_tx.sqlite3"))
            .with_migrations(mithril_persistence::database::cardano_transaction_migration::get_migrations())
            .with_options(&[ConnectionOptions::EnableForeignKeys, ConnectionOptions::EnableWriteAheadLog])
            .build_pool(2)
            .expect("pool");
        let repo = Arc::new(Repo { inner: CardanoTransactionRepository::new(Arc::new(pool)), deep: AtomicBool::new(false), origin0: AtomicBool::new(false) });
        let server = Arc::new(StdMutex::new(Server::new(chain)));
        let importer = Self::mk_importer(&repo, &server, max);
        Node { dir, repo, server, importer, max }
    }
    fn mk_importer(repo: &Arc<Repo>, server: &Arc<StdMutex<Server>>, max: usize) -> CardanoChainDataImporter {
        let reader: Arc<tokio::sync::Mutex<dyn ChainBlockReader>> = Arc::new(tokio::sync::Mutex::new(Reader(server.clone())));
        let scanner = Arc::new(CardanoBlockScanner::new(reader, max, logger()));
        CardanoChainDataImporter::new(scanner, repo.clone(), logger())
    }
    /// process restart: the in-memory cursor is lost
    fn restart(&mut self) {
        self.importer = Self::mk_importer(&self.repo, &self.server, self.max);
    }
    async fn import(&self, t: u64) -> bool {
        self.importer.import(BlockNumber(t)).await.is_ok()
    }
    async fn tables(&self) -> Tables {
        let blocks = self.repo.inner.get_all_blocks().await.unwrap();
        let txs = self.repo.inner.get_all_transactions().await.unwrap();
        let mut by_block: HashMap<String, Vec<u64>> = HashMap::new();
        for t in txs {
            by_block.entry(t.block_hash.clone()).or_default().push(u64::from_str_radix(&t.transaction_hash, 16).unwrap());
        }
        let mut bs: Vec<Blk> = blocks
            .into_iter()
            .map(|b| {
                let mut txs = by_block.remove(&b.block_hash).unwrap_or_default();
                txs.sort();
                Blk { num: *b.block_number, slot: *b.slot_number, bh: u64::from_str_radix(&b.block_hash, 16).unwrap(), txs }
            })
            .collect();
        bs.sort_by_key(|b| b.num);
        assert!(by_block.is_empty(), "transaction rows without a block row");
        let conv = |v: Vec<mithril_persistence::database::record::BlockRangeRootRecord>| {
            let mut r: Vec<(u64, u64, String)> = v.into_iter().map(|r| (*r.range.start, *r.range.end, r.merkle_root.to_hex())).collect();
            r.sort();
            r
        };
        Tables {
            blocks: bs,
            roots: conv(self.repo.inner.get_all_block_range_root().unwrap()),
            lroots: conv(self.repo.inner.get_all_legacy_block_range_root().unwrap()),
        }
    }
    async fn signable(&self, b: u64) -> String {
        let r: &dyn BlockRangeRootRetriever<MKTreeStoreInMemory> = &*self.repo;
        match r.compute_merkle_map_from_block_range_roots(BlockNumber(b)).await.and_then(|m| m.compute_root()) {
            Ok(root) => root.to_hex(),
            Err(_) => "ERR".into(),
        }
    }
    async fn signable_legacy(&self, b: u64) -> String {
        let r: &dyn LegacyBlockRangeRootRetriever<MKTreeStoreInMemory> = &*self.repo;
        match r.compute_merkle_map_from_block_range_roots(BlockNumber(b)).await.and_then(|m| m.compute_root()) {
            Ok(root) => root.to_hex(),
            Err(_) => "ERR".into(),
        }
    }
}
impl Drop for Node {
    fn drop(&mut self) {
        let _ = std::fs::remove_dir_all(&self.dir);
    }
}
#[derive(PartialEq, Debug)]
struct Tables {
    blocks: Vec<Blk>,
    roots: Vec<(u64, u64, String)>,
    lroots: Vec<(u64, u64, String)>,
}

// ---------------------------------------------------------------------------------------------
// histories
#[derive(Clone, Debug)]
enum Ev {
    Mut(Switch),
    Import(u64, Vec<(usize, Switch)>),
    Restart,
    Disconnect,
}
impl Ev {
    fn coq(&self) -> String {
        match self {
            Ev::Mut(m) => format!("EMut ({})", m.coq()),
            Ev::Import(t, d) => format!(
                "EImport {} {}",
                coq::n(*t),
                coq::list(&d.iter().map(|(k, m)| format!("({}%nat, {})", k, m.coq())).collect::<Vec<_>>())
            ),
            Ev::Restart => "ERestart".into(),
            Ev::Disconnect => "EDisconnect".into(),
        }
    }
    fn json(&self) -> serde_json::Value {
        match self {
            Ev::Mut(m) => serde_json::json!({"mut": m.json()}),
            Ev::Import(t, d) => serde_json::json!({"import": t, "during": d.iter().map(|(k, m)| serde_json::json!([k, m.json()])).collect::<Vec<_>>()}),
            Ev::Restart => serde_json::json!("restart"),
            Ev::Disconnect => serde_json::json!("disconnect"),
        }
    }
}

struct Gen<'a> {
    rng: &'a mut Rng,
    next_bh: u64,
    next_tx: u64,
}
impl Gen<'_> {
    /// `n` fresh blocks after `prev` (number, slot); transactions partly taken from `recycle`
    fn blocks(&mut self, prev: Option<(u64, u64)>, first_num: u64, n: usize, recycle: &mut Vec<u64>) -> Vec<Blk> {
        let mut out = vec![];
        let (mut num, mut slot) = match prev {
            Some((n, s)) => (n + 1, s),
            None => (first_num, self.rng.below(3)),
        };
        for _ in 0..n {
            slot += 1 + if self.rng.chance(1, 3) { self.rng.below(20) } else { 0 };
            let mut txs = vec![];
            for _ in 0..[0u64, 0, 1, 1, 2, 3][self.rng.below(6) as usize] {
                if !recycle.is_empty() && self.rng.chance(1, 2) {
                    txs.push(recycle.remove(0));
                } else {
                    self.next_tx += 1;
                    txs.push(self.next_tx);
                }
            }
            txs.sort();
            self.next_bh += 1;
            out.push(Blk { num, slot, bh: self.next_bh, txs });
            num += 1;
        }
        out
    }
}

struct History {
    kind: String,
    max: usize,
    c0: Vec<Blk>,
    events: Vec<Ev>,
    beacons: Vec<u64>,
    /// every import target was at or below the tip of the canonical chain (environment assumption)
    targets_below_tip: bool,
}

fn gen_history(rng: &mut Rng, thorough: bool, flavour: u64, partial_beacons: bool) -> History {
    let mut g = Gen { rng, next_bh: 0, next_tx: 0 };
    let max = *g.rng.pick(&[1usize, 2, 3, 4, 4, 7, 100]);
    let first_num = *g.rng.pick(&[0u64, 0, 0, 1, 7, 14, 15, 37]);
    let n0 = g.rng.range(3, 50) as usize;
    let c0 = g.blocks(None, first_num, n0, &mut vec![]);
    // local mirror of the canonical chain and of what the node is believed to hold
    let mut chain = c0.clone();
    let mut stored_hi: Option<u64> = None; // highest imported target that completed (approximation used to aim mutations)
    let mut events = vec![];
    let n_events = if thorough { g.rng.range(5, 60) } else { g.rng.range(5, 25) } as usize;
    let mut targets_below_tip = true;
    let mut kind = match flavour {
        0 => "forward-only",
        1 => "rollbacks",
        2 => "rollbacks+restarts",
        3 => "mid-stream",
        _ => "mixed",
    }
    .to_string();
    let mut last_target = 0u64;
    let mk_switch = |g: &mut Gen, chain: &Vec<Blk>, stored_hi: Option<u64>, allow_deep: bool| -> Switch {
        let len = chain.len();
        // where to cut: aimed at the boundaries the theorems depend on
        let idx_of_num = |n: u64| chain.iter().position(|b| b.num == n);
        let mut keep = match g.rng.below(8) {
            0 => len,                                                                    // pure extension
            1 => stored_hi.and_then(idx_of_num).map(|i| i + 1).unwrap_or(len),          // exactly the highest stored block
            2 => stored_hi.and_then(idx_of_num).map(|i| i).unwrap_or(len.saturating_sub(1)), // one below it
            3 => {
                // a block-range boundary at or below the stored horizon
                let hi = stored_hi.unwrap_or(chain.last().map(|b| b.num).unwrap_or(0));
                let k = g.rng.below(hi / 15 + 1) * 15;
                let target = if g.rng.coin() { k } else { k.saturating_sub(1) };
                idx_of_num(target).map(|i| i + 1).unwrap_or(len)
            }
            4 => 1,                                                                      // down to the first block
            5 => len.saturating_sub(g.rng.range(1, 40) as usize),
            _ => len.saturating_sub(g.rng.range(1, 5) as usize),
        };
        if keep == 0 && !allow_deep {
            keep = 1.min(len);
        }
        if allow_deep && g.rng.chance(1, 12) {
            keep = 0;
        }
        let keep = keep.min(len);
        let removed = len - keep;
        let mut recycle: Vec<u64> = chain[keep..].iter().flat_map(|b| b.txs.clone()).collect();
        let n_new = removed + g.rng.below(12) as usize + if removed == 0 { 1 } else { 0 };
        let prev = if keep > 0 { Some((chain[keep - 1].num, chain[keep - 1].slot)) } else { None };
        let first = chain.first().map(|b| b.num).unwrap_or(0);
        let bs = g.blocks(prev, first, n_new, &mut recycle);
        Switch { keep, bs }
    };
    let apply = |chain: &mut Vec<Blk>, m: &Switch| {
        let keep = m.keep.min(chain.len());
        chain.truncate(keep);
        chain.extend(m.bs.iter().cloned());
    };
    for i in 0..n_events {
        let last = i + 1 == n_events;
        let tip = chain.last().map(|b| b.num).unwrap_or(0);
        let roll = g.rng.below(100);
        let want_import = last || roll < 45;
        if want_import {
            let mut t = match g.rng.below(10) {
                0 => last_target,                                     // same target again
                1 => last_target.saturating_sub(g.rng.below(20)),     // lower target
                2 => (last_target / 15 + 1) * 15 - 1,                 // next range boundary
                3 => tip,
                _ => last_target + g.rng.range(1, 25),
            };
            if last && g.rng.chance(4, 5) {
                t = t.max(last_target + 1);
            }
            if t > tip {
                if flavour == 4 && g.rng.chance(1, 10) {
                    targets_below_tip = false; // rare: target beyond the tip (not judged)
                } else {
                    t = tip;
                }
            }
            let mut during = vec![];
            if flavour >= 3 && g.rng.chance(if flavour == 3 { 1 } else { 1 }, if flavour == 3 { 2 } else { 6 }) {
                let reads = g.rng.below(12) as usize;
                let mut m = mk_switch(&mut g, &chain, stored_hi, false);
                // aim some of them at the very point the stream starts from
                if g.rng.chance(1, 3) {
                    if let Some(i) = stored_hi.and_then(|h| chain.iter().position(|b| b.num == h)) {
                        let keep = i + 1;
                        let removed = chain.len() - keep;
                        let mut recycle: Vec<u64> = chain[keep..].iter().flat_map(|b| b.txs.clone()).collect();
                        let extra = g.rng.below(6) as usize;
                        let bs = g.blocks(Some((chain[i].num, chain[i].slot)), 0, removed + 1 + extra, &mut recycle);
                        m = Switch { keep, bs };
                    }
                }
                apply(&mut chain, &m);
                during.push((reads, m));
                let tip2 = chain.last().map(|b| b.num).unwrap_or(0);
                if t > tip2 {
                    t = tip2;
                }
            }
            events.push(Ev::Import(t, during));
            if stored_hi.map_or(true, |h| t > h) {
                stored_hi = Some(t);
            }
            last_target = last_target.max(t);
        } else if roll < 75 || flavour == 0 {
            let m = if flavour == 0 {
                let prev = chain.last().map(|b| (b.num, b.slot));
                let n = g.rng.range(1, 20) as usize;
                let first = chain.first().map(|b| b.num).unwrap_or(0);
                Switch { keep: chain.len(), bs: g.blocks(prev, first, n, &mut vec![]) }
            } else {
                mk_switch(&mut g, &chain, stored_hi, flavour == 4)
            };
            apply(&mut chain, &m);
            events.push(Ev::Mut(m));
        } else if flavour >= 2 {
            events.push(if g.rng.coin() { Ev::Restart } else { Ev::Disconnect });
        } else {
            let m = mk_switch(&mut g, &chain, stored_hi, false);
            apply(&mut chain, &m);
            events.push(Ev::Mut(m));
        }
    }
    // beacons to evaluate the signable roots at: the final target (the beacon a signer would
    // sign right after this import), complete-range beacons below it, and - in one history
    // out of four - partial beacons below it
    let t = match events.last() {
        Some(Ev::Import(t, _)) => *t,
        _ => last_target,
    };
    let mut beacons = vec![t];
    if t >= 15 {
        beacons.push(t / 15 * 15 - 1); // last complete range end at or below t
        beacons.push((g.rng.below(t / 15) + 1) * 15 - 1);
    } else {
        g.rng.next();
    }
    let b1 = g.rng.below(t + 1);
    let b2 = g.rng.below(t + 1);
    if partial_beacons {
        beacons.push(b1);
        beacons.push(b2);
    }
    beacons.sort();
    beacons.dedup();
    if partial_beacons {
        kind.push_str("+partial-beacons");
    }
    if !targets_below_tip {
        kind.push_str("+target-beyond-tip");
    }
    History { kind, max, c0, events, beacons, targets_below_tip }
}

/// Histories aimed at the class C13-origin-rollback-slot0: the first block of the chain sits at slot 0, the node
/// imports some of it, the WHOLE chain is replaced (`Switch 0`), optionally the process restarts / the connection
/// drops, and a further import polls: the follower is rolled back to the origin = slot 0.
fn gen_slot0_history(rng: &mut Rng, variant: u64) -> History {
    let mut g = Gen { rng, next_bh: 0, next_tx: 0 };
    let max = *g.rng.pick(&[1usize, 2, 4, 100]);
    let first_num = *g.rng.pick(&[0u64, 0, 1, 7]);
    let n0 = g.rng.range(3, 12) as usize;
    let mut c0 = g.blocks(None, first_num, n0, &mut vec![]);
    c0[0].slot = 0;
    let t1 = first_num + g.rng.range(1, n0 as u64 - 1);
    let mut events = vec![Ev::Import(t1, vec![])];
    let mut recycle: Vec<u64> = c0.iter().flat_map(|b| b.txs.clone()).collect();
    let n_new = n0 + g.rng.range(1, 6) as usize;
    let mut bs = g.blocks(None, first_num, n_new, &mut recycle);
    if g.rng.chance(1, 2) {
        // the silent variant: the replacing first block brings no transaction, nothing fails
        bs[0].txs.clear();
    }
    events.push(Ev::Mut(Switch { keep: 0, bs }));
    match variant % 3 {
        0 => events.push(Ev::Restart),
        1 => events.push(Ev::Disconnect),
        _ => {}
    }
    let t2 = first_num + g.rng.range(t1 - first_num + 1, n_new as u64 - 1);
    events.push(Ev::Import(t2, vec![]));
    History { kind: "origin-slot0".into(), max, c0, events, beacons: vec![], targets_below_tip: true }
}

struct Outcome {
    /// the canonical chain changed after the last import (premise of the property not met)
    late_mutation: bool,
    oks: Vec<bool>,
    deep: bool,
    origin0: bool,
    stale: bool,
    echo: bool,
    tables: Tables,
    final_chain: Vec<Blk>,
    sig: Vec<[String; 4]>, // per beacon: new(hist), new(scratch at b), legacy(hist), legacy(scratch at b)
    scratch_tables: Option<Tables>,
    last_target: Option<u64>,
}

async fn run_history(h: &History, work: &PathBuf, id: u64) -> Outcome {
    let mut node = Node::new(work.join(format!("c{}-hist", id)), h.c0.clone(), h.max);
    let mut oks = vec![];
    let mut stale = false;
    let mut late_mutation = false;
    let mut last_target = None;
    for ev in &h.events {
        match ev {
            Ev::Mut(m) => node.server.lock().unwrap().mutate(m),
            Ev::Restart => {
                node.restart();
                node.server.lock().unwrap().reconnect();
            }
            Ev::Disconnect => node.server.lock().unwrap().reconnect(),
            Ev::Import(t, during) => {
                let reads_before = {
                    let mut s = node.server.lock().unwrap();
                    s.pending = during.clone();
                    s.reads
                };
                let ok = node.import(*t).await;
                oks.push(ok);
                let polled = {
                    let mut s = node.server.lock().unwrap();
                    // mutations not reached during the import happen right after it
                    let rest: Vec<_> = s.pending.drain(..).collect();
                    // a mutation the import did not reach changes the canonical chain AFTER this
                    // import: if this is the last import the history does not end with an import
                    late_mutation = !rest.is_empty();
                    for (_, m) in rest {
                        s.mutate(&m);
                    }
                    // the importer opened a stream iff the reader was read at least once
                    s.reads != reads_before
                };
                let tb = node.tables().await;
                let chain = node.server.lock().unwrap().chain.clone();
                stale = !polled && tb.blocks.last().map_or(false, |b| !chain.iter().any(|c| c.bh == b.bh));
                last_target = Some(*t);
            }
        }
    }
    let tables = node.tables().await;
    let final_chain = node.server.lock().unwrap().chain.clone();
    let mut sig = vec![];
    for (k, b) in h.beacons.iter().enumerate() {
        let sc = Node::new(work.join(format!("c{}-s{}", id, k)), final_chain.clone(), h.max);
        sc.import(*b).await;
        sig.push([node.signable(*b).await, sc.signable(*b).await, node.signable_legacy(*b).await, sc.signable_legacy(*b).await]);
    }
    let scratch_tables = match last_target {
        Some(t) => {
            let sc = Node::new(work.join(format!("c{}-sT", id)), final_chain.clone(), h.max);
            // effective target: the store keeps what an earlier, further import brought
            let t_eff = t.max(tables.blocks.last().map_or(0, |b| b.num));
            sc.import(t_eff).await;
            Some(sc.tables().await)
        }
        None => None,
    };
    let (deep, echo) = (node.repo.deep.load(Ordering::SeqCst), node.server.lock().unwrap().echo_confusion);
    let origin0 = node.repo.origin0.load(Ordering::SeqCst);
    Outcome { late_mutation, oks, deep, origin0, stale, echo, tables, final_chain, sig, scratch_tables, last_target }
}

fn eq_pattern(items: &[String]) -> Vec<u64> {
    let mut seen: Vec<&String> = vec![];
    items
        .iter()
        .map(|s| match seen.iter().position(|t| *t == s) {
            Some(i) => i as u64,
            None => {
                seen.push(s);
                (seen.len() - 1) as u64
            }
        })
        .collect()
}

fn obs_blocks(bs: &[Blk]) -> String {
    coq::ol(&bs.iter().map(|b| coq::ol(&[coq::on(b.num), coq::on(b.slot), coq::on(b.bh), coq::oln(&b.txs)])).collect::<Vec<_>>())
}

fn main() {
    let args = hc::parse_args();
    // a foreign-key failure surfaces as a panic of the importer's blocking worker (cursor.rs unwrap),
    // which the importer turns into an `Err`: expected in the known classes, keep stderr quiet
    std::panic::set_hook(Box::new(|_| {}));
    let mut rng = Rng::new(args.seed);
    let mut sink = Sink::new(&args);
    let work = PathBuf::from(std::env::var("VERIF_WORK").unwrap_or_else(|_| ".".into())).join("db");
    let _ = std::fs::remove_dir_all(&work);
    std::fs::create_dir_all(&work).unwrap();
    let rt = tokio::runtime::Builder::new_multi_thread().worker_threads(2).enable_all().build().unwrap();

    // Probe mode, NOT part of the check (`C13_PROBE=1 c13 --seed 1 --tier quick --out /dev/null`): runs on the
    // real importer the two hand-written histories of coq/C13/Refuted.v C13_hyp_needed_* (chains the
    // generator never produces: a block at slot 0, a gap in the block numbers) and prints what happened.
    if std::env::var("C13_PROBE").is_ok() {
        let b = |num: u64, slot: u64, bh: u64, txs: &[u64]| Blk { num, slot, bh, txs: txs.to_vec() };
        let probes = vec![
            (
                "slot0",
                History {
                    kind: "probe".into(),
                    max: 4,
                    c0: vec![b(0, 0, 1, &[]), b(1, 5, 2, &[10])],
                    events: vec![
                        Ev::Import(1, vec![]),
                        Ev::Mut(Switch { keep: 0, bs: vec![b(0, 3, 3, &[]), b(1, 6, 4, &[11]), b(2, 8, 5, &[])] }),
                        Ev::Restart,
                        Ev::Import(2, vec![]),
                    ],
                    beacons: vec![],
                    targets_below_tip: true,
                },
            ),
            (
                "gap",
                History {
                    kind: "probe".into(),
                    max: 4,
                    c0: vec![b(5, 10, 1, &[]), b(7, 20, 2, &[10])],
                    events: vec![Ev::Import(6, vec![]), Ev::Import(7, vec![])],
                    beacons: vec![],
                    targets_below_tip: true,
                },
            ),
        ];
        for (k, (name, h)) in probes.iter().enumerate() {
            let o = rt.block_on(run_history(h, &work, 900_000 + k as u64));
            eprintln!(
                "PROBE {}: oks={:?} deep={} stale={} echo={} stored_bh={:?} scratch_bh={:?}",
                name,
                o.oks,
                o.deep,
                o.stale,
                o.echo,
                o.tables.blocks.iter().map(|x| x.bh).collect::<Vec<_>>(),
                o.scratch_tables.as_ref().map(|t| t.blocks.iter().map(|x| x.bh).collect::<Vec<_>>())
            );
        }
        let _ = std::fs::remove_dir_all(&work);
        return;
    }

    let n_cases = if args.thorough { 600 } else { 130 };
    // after the random flavours: a few histories aimed at the origin / slot-0 class (appended, so the
    // random cases keep their seeds)
    let n_slot0 = if args.thorough { 12 } else { 4 };
    for i in 0..n_cases + n_slot0 {
        let flavour = [0u64, 1, 1, 2, 2, 3, 4, 4][(i % 8) as usize];
        let mut sub = rng.fork();
        let h = if i < n_cases { gen_history(&mut sub, args.thorough, flavour, i % 5 == 4) } else { gen_slot0_history(&mut sub, i) };
        let Some(id) = sink.wants() else { continue };
        let o = rt.block_on(run_history(&h, &work, id));

        // ---- the property, judged on the real node against from-scratch real nodes ----
        let mut why: Vec<String> = vec![];
        let mut tables_differ = false;
        if let Some(false) = o.oks.last() {
            why.push("the last import failed".into());
        }
        if let Some(sc) = &o.scratch_tables {
            if sc.blocks != o.tables.blocks {
                tables_differ = true;
                why.push(format!(
                    "stored blocks/transactions differ from a from-scratch import of the canonical chain to {:?} ({} vs {} blocks)",
                    o.last_target, o.tables.blocks.len(), sc.blocks.len()
                ));
            }
            if sc.roots != o.tables.roots {
                tables_differ = true;
                why.push("stored block-range roots differ from a from-scratch import".into());
            }
            if sc.lroots != o.tables.lroots {
                tables_differ = true;
                why.push("stored legacy block-range roots differ from a from-scratch import".into());
            }
        }
        let mut partial_only = true;
        let mut root_differs = false;
        for (b, s) in h.beacons.iter().zip(&o.sig) {
            let complete = (b + 1) % 15 == 0;
            if s[0] != s[1] {
                root_differs = true;
                partial_only &= !complete;
                why.push(format!("root offered for beacon {} differs from the root of a node that imported exactly to {}", b, b));
            }
            if complete && s[2] != s[3] {
                root_differs = true;
                partial_only = false;
                why.push(format!("legacy root offered for beacon {} depends on import progress", b));
            }
        }
        let judged = h.targets_below_tip && o.last_target.is_some() && !o.late_mutation;
        let holds = if judged { Some(why.is_empty()) } else { None };
        let known = if holds == Some(false) {
            if o.deep {
                Some("C13-deep-rollback".to_string())
            } else if o.origin0 {
                Some("C13-origin-rollback-slot0".to_string())
            } else if o.echo {
                Some("C13-echo-rollback".to_string())
            } else if o.stale {
                Some("C13-stale-up-to-date".to_string())
            } else if !tables_differ && o.oks.last() == Some(&true) && root_differs && partial_only {
                Some("C13-partial-beacon".to_string())
            } else {
                None
            }
        } else {
            None
        };

        // ---- observation ----
        let mut hashes: Vec<String> = vec![];
        hashes.extend(o.tables.roots.iter().map(|r| r.2.clone()));
        hashes.extend(o.tables.lroots.iter().map(|r| r.2.clone()));
        for s in &o.sig {
            hashes.extend(s.iter().cloned());
        }
        let impl_obs = coq::ol(&[
            coq::ol(&o.oks.iter().map(|b| coq::ob(*b)).collect::<Vec<_>>()),
            coq::ob(o.deep),
            coq::ob(o.stale),
            obs_blocks(&o.tables.blocks),
            coq::oln(&o.tables.roots.iter().map(|r| r.0).collect::<Vec<_>>()),
            coq::oln(&o.tables.lroots.iter().map(|r| r.0).collect::<Vec<_>>()),
            coq::oln(&eq_pattern(&hashes)),
        ]);
        let model = format!(
            "C13.Model.run {}%nat {} {} {}",
            h.max,
            coq_blocks(&h.c0),
            coq::list(&h.events.iter().map(|e| e.coq()).collect::<Vec<_>>()),
            coq::list_n(&h.beacons)
        );
        let n_roll = h.events.iter().filter(|e| matches!(e, Ev::Mut(m) if m.keep < usize::MAX)).count();
        sink.push(Case {
            id,
            kind: h.kind.clone(),
            desc: serde_json::json!({
                "max_roll_forwards_per_poll": h.max,
                "initial_chain": h.c0.iter().map(|b| b.json()).collect::<Vec<_>>(),
                "events": h.events.iter().map(|e| e.json()).collect::<Vec<_>>(),
                "beacons": h.beacons,
                "final_chain_len": o.final_chain.len(),
                "block": "[number, slot, hash id, [transaction ids]]",
            }),
            model: Some(model),
            impl_obs,
            holds,
            why: if why.is_empty() { None } else { Some(why.join("; ")) },
            known,
            nontrivial: n_roll > 0 && o.tables.blocks.len() > 1,
            key: format!("{:x}", fxhash(&format!("{:?}{:?}{:?}", h.c0, h.events, h.beacons))),
        });
    }
    sink.finish();
    let _ = std::fs::remove_dir_all(&work);
}

fn fxhash(s: &str) -> u64 {
    let mut h: u64 = 0xcbf29ce484222325;
    for b in s.bytes() {
        h ^= b as u64;
        h = h.wrapping_mul(0x100000001b3);
    }
    h
}
