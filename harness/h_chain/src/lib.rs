//! harness crate h_chain (binaries in src/bin)
