//! C03 correspondence harness: certificate chain verification.
//!
//! Real chains from `CertificateChainBuilder` are tampered with (fields altered with / without hash
//! recomputation, certificates re-signed by an adversarial but internally consistent fixture,
//! links re-targeted / dropped / duplicated / looped / served for the wrong hash, epochs shifted)
//! and fed through a fake `CertificateRetriever` to `MithrilCertificateVerifier::verify_certificate_chain`.
//! Every certificate of a case is also printed as a term of the Coq model (symbolic hashes by
//! provenance: a string equal to the hash of an earlier certificate becomes `(hash cN)`).
//! `holds`: acceptance is a failure exactly when the generator knows the tampered chain violates
//! the property (provenance), independently of the model.
use hc::{coq, Case, Rng, Sink};
use mithril_common::certificate_chain::{
    CertificateRetriever, CertificateRetrieverError, CertificateVerifier, MithrilCertificateVerifier,
};
use mithril_common::crypto_helper::{GenesisEd25519Signer, ProtocolClerk};
use mithril_common::entities::{
    Certificate, CertificateSignature, Epoch, ProtocolMessagePartKey as K, ProtocolParameters, SignedEntityType,
};
use mithril_common::test::builder::{CertificateChainBuilder, CertificateChainFixture, MithrilFixture, MithrilFixtureBuilder};
use mithril_common::test::double::Dummy;
use mithril_stm::{AggregateSignatureType, AncillaryProofInput};
use std::collections::HashMap;
use std::sync::Arc;

const KEYS: [K; 12] = [
    K::SnapshotDigest,
    K::CardanoTransactionsMerkleRoot,
    K::CardanoBlocksTransactionsMerkleRoot,
    K::NextAggregateVerificationKey,
    K::NextProtocolParameters,
    K::CurrentEpoch,
    K::LatestBlockNumber,
    K::CardanoBlocksTransactionsBlockNumberOffset,
    K::CardanoStakeDistributionEpoch,
    K::CardanoStakeDistributionMerkleRoot,
    K::CardanoDatabaseMerkleRoot,
    K::NextSnarkAggregateVerificationKey,
];

fn lit(s: &str) -> String {
    format!("(BLit {})", coq::bytes(s.as_bytes()))
}
fn dyadic(x: f64) -> (i128, i128) {
    let bits = x.to_bits();
    let sign: i128 = if bits >> 63 == 1 { -1 } else { 1 };
    let e = ((bits >> 52) & 0x7ff) as i128;
    let frac = (bits & ((1u64 << 52) - 1)) as i128;
    if e == 0 { (sign * frac, -1074) } else { (sign * (frac | (1 << 52)), e - 1075) }
}
fn phi_coq(x: f64) -> String {
    let (m, e) = dyadic(x);
    format!("({}, {})%Z", m, e)
}
fn set_coq(t: &SignedEntityType) -> String {
    match t {
        SignedEntityType::MithrilStakeDistribution(e) => format!("(MSD {})", **e),
        SignedEntityType::CardanoStakeDistribution(e) => format!("(CSD {})", **e),
        SignedEntityType::CardanoDatabase(b) => format!("(CDb {} {})", *b.epoch, b.immutable_file_number),
        SignedEntityType::CardanoTransactions(e, b) => format!("(CTx {} {})", **e, **b),
        SignedEntityType::CardanoBlocksTransactions(e, b, o) => format!("(CBTx {} {} {})", **e, **b, **o),
    }
}

/// provenance of a multi-signature: who signed what
#[derive(Clone)]
struct SigProv {
    id: u64,
    avk: String,
    params: (u64, u64, f64),
    msg: String,
}

/// Builds the Coq `let` chain for the certificates of one case.
struct Ctx {
    strings: HashMap<String, String>,  // known string -> Coq expression of type bt
    avk_ids: HashMap<String, u64>,     // avk json-hex -> key id
    msigs: HashMap<String, SigProv>,   // multi-signature json-hex -> provenance
    gsigs: HashMap<String, (u64, String)>, // genesis signature hex -> (signer id, message)
    pps: Vec<(u64, u64, f64)>,
    lets: Vec<String>,
    names: HashMap<String, String>,    // identity (exhaustive Debug) -> node name
    n: usize,
}
impl Ctx {
    fn avk_id(&mut self, s: &str) -> u64 {
        let n = self.avk_ids.len() as u64 + 1;
        *self.avk_ids.entry(s.to_string()).or_insert(n)
    }
    fn sym(&self, s: &str) -> String {
        self.strings.get(s).cloned().unwrap_or_else(|| lit(s))
    }
    fn node(&mut self, c: &Certificate) -> String {
        let ident = format!("{:#?}", c);
        if let Some(n) = self.names.get(&ident) {
            return n.clone();
        }
        let i = self.n;
        self.n += 1;
        let md = &c.metadata;
        let pp = &md.protocol_parameters;
        if !self.pps.iter().any(|p| p.0 == pp.k && p.1 == pp.m && p.2.to_bits() == pp.phi_f.to_bits()) {
            self.pps.push((pp.k, pp.m, pp.phi_f));
        }
        // protocol message
        let mut parts = vec![];
        for (k, v) in c.protocol_message.message_parts.iter() {
            let ki = KEYS.iter().position(|x| x == k).expect("unknown key");
            let val = if let Some(e) = self.strings.get(v) {
                e.clone()
            } else if ki == 3 && self.avk_ids.contains_key(v) {
                format!("(BHex (BLit [{}]))", self.avk_ids[v])
            } else if let Some(p) = (ki == 4).then(|| self.pps.iter().find(|p| ProtocolParameters::new(p.0, p.1, p.2).compute_hash() == *v)).flatten() {
                format!("(pph {} {} {})", p.0, p.1, phi_coq(p.2))
            } else {
                lit(v)
            };
            parts.push(format!("({}%nat, {})", ki, val));
        }
        self.lets.push(format!("let pm{} := {} in", i, coq::list(&parts)));
        let own_pm_hash = c.protocol_message.compute_hash();
        let own = format!("(pm_hash (pmsg_of pm{}))", i);
        let msg_sym = |ctx: &Ctx, s: &str| if s == own_pm_hash { own.clone() } else { ctx.sym(s) };
        let signed = msg_sym(self, &c.signed_message);
        let avk_s = c.aggregate_verification_key.to_json_hex().unwrap();
        let avk = self.avk_id(&avk_s);
        let sig = match &c.signature {
            CertificateSignature::GenesisSignature(g) => {
                let h = g.to_bytes_hex().unwrap();
                match self.gsigs.get(&h).cloned() {
                    Some((sk, m)) => format!("(GenesisSig (SigOf {} {}))", sk, msg_sym(self, &m)),
                    None => "(GenesisSig (Junk 0))".to_string(),
                }
            }
            CertificateSignature::MultiSignature(t, s) => {
                let h = s.to_json_hex().unwrap();
                match self.msigs.get(&h).cloned() {
                    Some(p) => {
                        let a = self.avk_id(&p.avk);
                        format!(
                            "(MultiSig {} (MSby {} (BLit [{}]) (fixp {} {} {}) {}))",
                            set_coq(t), p.id, a, p.params.0, p.params.1, phi_coq(p.params.2), msg_sym(self, &p.msg)
                        )
                    }
                    None => format!("(MultiSig {} (MS 0))", set_coq(t)),
                }
            }
        };
        let ts = |d: &chrono::DateTime<chrono::Utc>| d.timestamp() as i128 * 1_000_000_000 + d.timestamp_subsec_nanos() as i128;
        let meta = format!(
            "(mk_meta {} {} {} {} {} ({})%Z ({})%Z {})",
            coq::bytes(md.network.as_bytes()),
            coq::bytes(md.protocol_version.as_bytes()),
            pp.k,
            pp.m,
            phi_coq(pp.phi_f),
            ts(&md.initiated_at),
            ts(&md.sealed_at),
            coq::list(&md.signers.iter().map(|p| format!("({}, {})", coq::bytes(p.party_id.as_bytes()), p.stake)).collect::<Vec<_>>())
        );
        let recomputed = c.try_compute_hash().map(|h| h == c.hash).unwrap_or(false);
        let body = |h: String, ctx: &Ctx| {
            format!("(mk_cert {} {} {} {} pm{} {} (BLit [{}]) {})", h, ctx.sym(&c.previous_hash), *c.epoch, meta, i, signed, avk, sig)
        };
        let expr = if recomputed && !self.strings.contains_key(&c.hash) {
            format!("(fin {})", body("(BLit [])".into(), self))
        } else {
            body(self.sym(&c.hash), self)
        };
        self.lets.push(format!("let c{} := {} in", i, expr));
        let name = format!("c{}", i);
        if recomputed {
            self.strings.entry(c.hash.clone()).or_insert(format!("(hash {})", name));
        }
        self.strings.entry(own_pm_hash).or_insert(own);
        self.names.insert(ident, name.clone());
        name
    }
}

struct MapRetriever(HashMap<String, Certificate>);
#[async_trait::async_trait]
impl CertificateRetriever for MapRetriever {
    async fn get_certificate_details(&self, h: &str) -> Result<Certificate, CertificateRetrieverError> {
        self.0.get(h).cloned().ok_or_else(|| CertificateRetrieverError(anyhow::anyhow!("not found")))
    }
}

struct Group {
    a: CertificateChainFixture, // honest chain, latest first
    b: CertificateChainFixture, // adversary's chain: own signer sets, own genesis key, internally consistent
    params: ProtocolParameters,
    na: usize,
    msigs: HashMap<String, SigProv>,
    gsigs: HashMap<String, (u64, String)>,
    next_sig_id: u64,
    per_epoch: u64,
    constant_avk: bool,
}

fn fixture(params: &ProtocolParameters, n: usize) -> MithrilFixture {
    MithrilFixtureBuilder::default().with_protocol_parameters(params.clone()).with_signers(n).build()
}
fn sign_with(fx: &MithrilFixture, msg: &str) -> Option<mithril_common::crypto_helper::ProtocolMultiSignature> {
    let signers = fx.signers_fixture();
    let sigs: Vec<_> = signers.iter().filter_map(|s| s.protocol_signer.sign(msg.as_bytes())).collect();
    let clerk = ProtocolClerk::new_clerk_from_signer(&signers[0].protocol_signer);
    clerk
        .aggregate_signatures_with_type(&sigs, msg.as_bytes(), AggregateSignatureType::default(), AncillaryProofInput::dummy())
        .ok()
        .map(|(s, _)| s.into())
}
fn rehash(c: &mut Certificate) {
    c.hash = c.try_compute_hash().unwrap();
}

fn n_signers_a(constant: bool, na: usize, e: u64) -> usize {
    if constant { na } else { 2 + ((e as usize + na) % 3) }
}
fn n_signers_b(constant: bool, na: usize, e: u64) -> usize {
    if constant { na + 1 } else { 5 + ((e as usize + na) % 2) }
}
impl Group {
    fn signers_a(&self, e: u64) -> usize { n_signers_a(self.constant_avk, self.na, e) }
    fn signers_b(&self, e: u64) -> usize { n_signers_b(self.constant_avk, self.na, e) }
    fn register_chain(&mut self, chain: &CertificateChainFixture, genesis_sk: u64) {
        for c in chain.certificates_chained.iter() {
            match &c.signature {
                CertificateSignature::GenesisSignature(g) => {
                    self.gsigs.insert(g.to_bytes_hex().unwrap(), (genesis_sk, c.signed_message.clone()));
                }
                CertificateSignature::MultiSignature(_, s) => {
                    let pp = &c.metadata.protocol_parameters;
                    self.next_sig_id += 1;
                    self.msigs.insert(
                        s.to_json_hex().unwrap(),
                        SigProv { id: self.next_sig_id, avk: c.aggregate_verification_key.to_json_hex().unwrap(), params: (pp.k, pp.m, pp.phi_f), msg: c.signed_message.clone() },
                    );
                }
            }
        }
    }
    /// re-sign certificate `c` with the adversary's fixture for its epoch (own AVK, valid multi-signature)
    fn resign_b(&mut self, c: &mut Certificate) -> bool {
        let fx = fixture(&self.params, self.signers_b(*c.epoch));
        let Some(ms) = sign_with(&fx, &c.signed_message) else { return false };
        let avk = fx.compute_and_encode_concatenation_aggregate_verification_key();
        c.aggregate_verification_key = avk.as_str().try_into().unwrap();
        c.metadata.signers = fx.stake_distribution_parties();
        self.next_sig_id += 1;
        let pp = &c.metadata.protocol_parameters;
        self.msigs.insert(
            ms.to_json_hex().unwrap(),
            SigProv { id: self.next_sig_id, avk: avk.clone(), params: (pp.k, pp.m, pp.phi_f), msg: c.signed_message.clone() },
        );
        let t = c.signed_entity_type();
        c.signature = CertificateSignature::MultiSignature(t, ms);
        true
    }
}

fn build_group(rng: &mut Rng, variant: u64) -> Group {
    let constant_avk = variant % 2 == 1;
    // constant-AVK groups are where only the epoch rules separate valid from invalid links: keep them long enough
    let total = if constant_avk { rng.range(7, 12) } else { rng.range(2, 12) };
    let per_epoch = if constant_avk { rng.range(1, 2) } else { std::cmp::min(rng.range(1, 4), total) };
    let params = [ProtocolParameters::new(5, 100, 0.65), ProtocolParameters::new(4, 80, 0.75), ProtocolParameters::new(6, 120, 0.9)][rng.below(3) as usize].clone();
    let na = rng.range(2, 4) as usize;
    let fa = move |e: Epoch| n_signers_a(constant_avk, na, *e);
    let a = CertificateChainBuilder::new()
        .with_total_certificates(total)
        .with_certificates_per_epoch(per_epoch)
        .with_protocol_parameters(params.clone().into())
        .with_total_signers_per_epoch_processor(&fa)
        .build();
    let fb = move |e: Epoch| n_signers_b(constant_avk, na, *e);
    let mut b = CertificateChainBuilder::new()
        .with_total_certificates(total)
        .with_certificates_per_epoch(per_epoch)
        .with_protocol_parameters(params.clone().into())
        .with_total_signers_per_epoch_processor(&fb)
        .build();
    // the adversary owns its genesis key: re-sign B's genesis and re-hash B bottom-up
    let adv = GenesisEd25519Signer::create_non_deterministic_signer();
    let mut gsigs = HashMap::new();
    {
        let n = b.certificates_chained.len();
        let old_to_new: &mut HashMap<String, String> = &mut HashMap::new();
        for i in (0..n).rev() {
            let c = &mut b.certificates_chained[i];
            let old = c.hash.clone();
            if c.is_genesis() {
                let s = adv.sign(c.signed_message.as_bytes());
                gsigs.insert(s.to_bytes_hex().unwrap(), (2u64, c.signed_message.clone()));
                c.signature = CertificateSignature::GenesisSignature(s);
            }
            if let Some(nh) = old_to_new.get(&c.previous_hash) {
                c.previous_hash = nh.clone();
            }
            rehash(c);
            old_to_new.insert(old, c.hash.clone());
        }
    }
    let mut g = Group { a, b, params, na, msigs: HashMap::new(), gsigs, next_sig_id: 0, per_epoch, constant_avk };
    let (a2, b2) = (g.a.clone(), g.b.clone());
    g.register_chain(&a2, 1);
    g.register_chain(&b2, 2);
    g
}

struct Tampered {
    kind: String,
    table: Vec<(String, Certificate)>,
    start: Certificate,
    /// the tampered chain violates the property: acceptance is a failure
    must_reject: bool,
    note: String,
}

/// path (indices into `a`, latest first) walked from `start_idx` to genesis by previous_hash
fn path_from(chain: &[Certificate], start_idx: usize) -> Vec<usize> {
    let mut p = vec![start_idx];
    let mut cur = start_idx;
    loop {
        let prev = &chain[cur].previous_hash;
        match chain.iter().position(|c| &c.hash == prev) {
            Some(j) if j != cur => {
                p.push(j);
                cur = j;
            }
            _ => break,
        }
    }
    p
}

/// after modifying chain[j] (on `path`, which starts at the start certificate), recompute hashes from j up to the start
fn rehash_up(certs: &mut Vec<Certificate>, path: &[usize], pos: usize) {
    let mut new_hash = {
        let c = &mut certs[path[pos]];
        rehash(c);
        c.hash.clone()
    };
    for k in (0..pos).rev() {
        let c = &mut certs[path[k]];
        c.previous_hash = new_hash;
        rehash(c);
        new_hash = c.hash.clone();
    }
}

fn tamper(rng: &mut Rng, g: &mut Group) -> Tampered {
    let a: Vec<Certificate> = g.a.certificates_chained.clone();
    let b: Vec<Certificate> = g.b.certificates_chained.clone();
    let n = a.len();
    let start_idx = if rng.chance(2, 3) { 0 } else { rng.below(n as u64) as usize };
    let path = path_from(&a, start_idx);
    let pos = rng.below(path.len() as u64) as usize; // target on the walked path
    let j = path[pos];
    let mut certs = a.clone();
    let table_of = |cs: &Vec<Certificate>| cs.iter().map(|c| (c.hash.clone(), c.clone())).collect::<Vec<_>>();
    let rehash_it = rng.coin();
    let kind_sel = rng.below(26);
    let std_target = !certs[j].is_genesis();
    let mk = |kind: &str, certs: Vec<Certificate>, must_reject: bool, note: String| Tampered {
        kind: kind.to_string(),
        table: table_of(&certs),
        start: certs[start_idx].clone(),
        must_reject,
        note,
    };
    let suffix = if rehash_it { "rehash" } else { "stale-hash" };
    match kind_sel {
        0 => mk("untouched", certs, false, format!("start {}", start_idx)),
        // ---- field edits ----
        1 | 2 => {
            // metadata not covered by any signature: only the hash protects it
            match rng.below(4) {
                0 => certs[j].metadata.network.push('x'),
                1 => certs[j].metadata.sealed_at += chrono::Duration::nanoseconds(1),
                2 => certs[j].metadata.protocol_version = "9.9.9".into(),
                _ => certs[j].metadata.initiated_at -= chrono::Duration::seconds(3),
            }
            if rehash_it { rehash_up(&mut certs, &path, pos); }
            mk(&format!("metadata/{}", suffix), certs, !rehash_it, format!("cert {} metadata edited", j))
        }
        3 => {
            if let Some(p) = certs[j].metadata.signers.first_mut() { p.stake += 1 } else { certs[j].metadata.network.push('y') }
            if rehash_it { rehash_up(&mut certs, &path, pos); }
            mk(&format!("signers/{}", suffix), certs, !rehash_it, format!("cert {} signer stake edited", j))
        }
        4 | 5 => {
            // epoch shifted by -2..+2 (field only)
            let d = *rng.pick(&[-2i64, -1, 1, 2]);
            let e = (*certs[j].epoch as i64 + d).max(0) as u64;
            let changed = e != *certs[j].epoch;
            certs[j].epoch = Epoch(e);
            if rehash_it { rehash_up(&mut certs, &path, pos); }
            mk(&format!("epoch-shift/{}", suffix), certs, changed, format!("cert {} epoch {:+}", j, d))
        }
        6 => {
            // epoch shifted consistently in field and signed message (message digest recomputed): the multi-signature no longer matches
            let d = *rng.pick(&[-2i64, -1, 1, 2]);
            let e = (*certs[j].epoch as i64 + d).max(0) as u64;
            let changed = e != *certs[j].epoch;
            certs[j].epoch = Epoch(e);
            certs[j].protocol_message.set_message_part(K::CurrentEpoch, format!("{}", e));
            certs[j].signed_message = certs[j].protocol_message.compute_hash();
            rehash_up(&mut certs, &path, pos);
            mk("epoch-shift-with-message/rehash", certs, changed, format!("cert {} epoch and message {:+}", j, d))
        }
        7 => {
            let k = *rng.pick(&[K::SnapshotDigest, K::NextAggregateVerificationKey, K::NextProtocolParameters, K::CurrentEpoch]);
            certs[j].protocol_message.set_message_part(k, "00ff".into());
            if rng.coin() { certs[j].signed_message = certs[j].protocol_message.compute_hash(); }
            if rehash_it { rehash_up(&mut certs, &path, pos); }
            mk(&format!("protocol-message/{}", suffix), certs, true, format!("cert {} message part {:?}", j, k))
        }
        8 => {
            certs[j].signed_message = format!("{}00", certs[j].signed_message);
            if rehash_it { rehash_up(&mut certs, &path, pos); }
            mk(&format!("signed-message/{}", suffix), certs, true, format!("cert {}", j))
        }
        9 => {
            let pp = &mut certs[j].metadata.protocol_parameters;
            match rng.below(3) { 0 => pp.k += 1, 1 => pp.m += 1, _ => pp.phi_f = 0.2 }
            if rehash_it { rehash_up(&mut certs, &path, pos); }
            mk(&format!("parameters/{}", suffix), certs, std_target || !rehash_it, format!("cert {}{}", j, if std_target { "" } else { " (genesis: its own parameters are not constrained by the property)" }))
        }
        10 => {
            // AVK swapped for the adversary's (signature untouched)
            let fx = fixture(&g.params, g.signers_b(*certs[j].epoch));
            certs[j].aggregate_verification_key = fx.compute_and_encode_concatenation_aggregate_verification_key().as_str().try_into().unwrap();
            if rehash_it { rehash_up(&mut certs, &path, pos); }
            mk(&format!("avk-swap/{}", suffix), certs, std_target || !rehash_it, format!("cert {}{}", j, if std_target { "" } else { " (genesis: its own AVK is not constrained by the property)" }))
        }
        24 | 25 => {
            // the certificate's AVK keeps the genuine Merkle commitment but states another total stake
            // (the honest multi-signature still verifies under a LOWER total stake: every lottery gets easier);
            // the key is no longer the one of the certificate it links to / the one the preceding epoch signed
            let hexs = certs[j].aggregate_verification_key.to_json_hex().unwrap();
            let mut v: serde_json::Value = serde_json::from_slice(&hex::decode(&hexs).unwrap()).unwrap();
            let old = v["total_stake"].as_u64();
            match old {
                Some(t) if std_target => {
                    let new_t = match rng.below(4) { 0 => t / 2, 1 => t.saturating_sub(1), 2 => t / 16 + 1, _ => t + 1 };
                    v["total_stake"] = serde_json::json!(new_t);
                    let enc = hex::encode(serde_json::to_vec(&v).unwrap());
                    certs[j].aggregate_verification_key = enc.as_str().try_into().unwrap();
                    if rehash_it { rehash_up(&mut certs, &path, pos); }
                    mk(&format!("avk-total-stake/{}", suffix), certs, new_t != t, format!("cert {} AVK total stake {} -> {} (same Merkle commitment)", j, t, new_t))
                }
                _ => mk("untouched", certs, false, "no-op".into()),
            }
        }
        11 | 12 => {
            // re-signed by the adversary's fixture: valid multi-signature under the adversary's AVK
            if std_target && g.resign_b(&mut certs[j]) {
                rehash_up(&mut certs, &path, pos);
                mk("resigned-by-adversary/rehash", certs, true, format!("cert {} carries the adversary's AVK and a valid multi-signature", j))
            } else {
                mk("untouched", certs, false, "no-op".into())
            }
        }
        13 => {
            // whole adversary chain (own genesis key)
            let t = table_of(&b);
            Tampered { kind: "adversary-chain".into(), table: t, start: b[0].clone(), must_reject: true, note: "internally consistent chain under another genesis key".into() }
        }
        14 => {
            // splice: honest upper part re-targeted onto the adversary's chain at the same epoch
            if std_target {
                let e = *a[j].epoch;
                let want = if pos + 1 < path.len() { *a[path[pos + 1]].epoch } else { e };
                if let Some(q) = b.iter().find(|c| *c.epoch == want) {
                    certs[j].previous_hash = q.hash.clone();
                    rehash_up(&mut certs, &path, pos);
                    let mut t = table_of(&certs);
                    t.extend(table_of(&b));
                    return Tampered { kind: "splice-onto-adversary/rehash".into(), table: t, start: certs[start_idx].clone(), must_reject: true, note: format!("cert {} now chains to the adversary's certificate of epoch {}", j, want) };
                }
            }
            mk("untouched", certs, false, "no-op".into())
        }
        // ---- links ----
        15 | 16 | 17 => {
            // re-target the link of cert j to another honest certificate
            if std_target {
                let cands: Vec<usize> = (0..n).filter(|&q| q != j && a[q].hash != a[j].previous_hash).collect();
                if !cands.is_empty() {
                    let q = *rng.pick(&cands);
                    let (ej, eq) = (*a[j].epoch, *a[q].epoch);
                    certs[j].previous_hash = a[q].hash.clone();
                    if rehash_it { rehash_up(&mut certs, &path, pos); }
                    // still a chain allowed by the property? same epoch needs same AVK/params (true inside an honest epoch);
                    // previous epoch needs that certificate's signed next AVK/params to be this one's
                    let legit = rehash_it && ((eq == ej && q > j) || (eq + 1 == ej));
                    let legit = legit && (eq == ej || a[q].protocol_message.get_message_part(&K::NextAggregateVerificationKey).map(|s| *s == a[j].aggregate_verification_key.to_json_hex().unwrap()).unwrap_or(false));
                    return mk(&format!("retarget/{}", suffix), certs, !legit, format!("cert {} (epoch {}) now chains to cert {} (epoch {})", j, ej, q, eq));
                }
            }
            mk("untouched", certs, false, "no-op".into())
        }
        18 => {
            // dropped from what the provider serves
            if pos > 0 {
                let mut t = table_of(&certs);
                t.retain(|(h, _)| *h != a[j].hash);
                Tampered { kind: "dropped".into(), table: t, start: certs[start_idx].clone(), must_reject: true, note: format!("cert {} not served", j) }
            } else {
                mk("untouched", certs, false, "no-op".into())
            }
        }
        19 => {
            // duplicated: also served under a second, unrelated key
            let mut t = table_of(&certs);
            t.push((format!("{}ff", a[j].hash), a[j].clone()));
            t.push((a[j].hash.clone(), a[j].clone()));
            Tampered { kind: "duplicated".into(), table: t, start: certs[start_idx].clone(), must_reject: false, note: format!("cert {} served twice", j) }
        }
        20 => {
            // looped: the provider answers the request for j's parent with a descendant (or j itself)
            if std_target {
                let back = path[rng.below(pos as u64 + 1) as usize];
                let mut t = table_of(&certs);
                t.retain(|(h, _)| *h != a[j].previous_hash);
                t.push((a[j].previous_hash.clone(), a[back].clone()));
                Tampered { kind: "looped".into(), table: t, start: certs[start_idx].clone(), must_reject: true, note: format!("request for the parent of cert {} answered with cert {}", j, back) }
            } else {
                mk("untouched", certs, false, "no-op".into())
            }
        }
        21 => {
            // self-loop on the field
            if std_target {
                certs[j].previous_hash = certs[j].hash.clone();
                mk("self-loop", certs, true, format!("cert {} chains to itself", j))
            } else {
                mk("untouched", certs, false, "no-op".into())
            }
        }
        22 => {
            // served for the wrong hash: the adversary's certificate of the same position
            if std_target && pos + 1 < path.len() {
                let parent = path[pos + 1];
                let mut t = table_of(&certs);
                t.retain(|(h, _)| *h != a[parent].hash);
                let wrong = if rng.coin() && parent < b.len() { b[parent].clone() } else { a[(parent + 1) % n].clone() };
                let same = wrong.hash == a[parent].hash;
                t.push((a[parent].hash.clone(), wrong));
                Tampered { kind: "wrong-hash-served".into(), table: t, start: certs[start_idx].clone(), must_reject: !same, note: format!("request for cert {} answered with another certificate", parent) }
            } else {
                mk("untouched", certs, false, "no-op".into())
            }
        }
        _ => {
            // multi-signature taken from another certificate
            if std_target {
                if let Some(q) = (0..n).find(|&q| q != j && !a[q].is_genesis()) {
                    if let CertificateSignature::MultiSignature(_, s) = &a[q].signature {
                        let t = certs[j].signed_entity_type();
                        certs[j].signature = CertificateSignature::MultiSignature(t, s.clone());
                        if rehash_it { rehash_up(&mut certs, &path, pos); }
                        return mk(&format!("foreign-signature/{}", suffix), certs, true, format!("cert {} carries the multi-signature of cert {}", j, q));
                    }
                }
            }
            mk("untouched", certs, false, "no-op".into())
        }
    }
}

/// targeted boundary cases on chains whose AVK and parameters are the same in every epoch, so that
/// only the epoch rules separate valid from invalid links
fn boundary(rng: &mut Rng, g: &mut Group, which: u64) -> Option<Tampered> {
    let a: Vec<Certificate> = g.a.certificates_chained.clone();
    let n = a.len();
    let table_of = |cs: &Vec<Certificate>| cs.iter().map(|c| (c.hash.clone(), c.clone())).collect::<Vec<_>>();
    let std: Vec<usize> = (0..n).filter(|&i| !a[i].is_genesis()).collect();
    if std.is_empty() { return None }
    let j = *rng.pick(&std);
    let _ = j;
    match which {
        0 | 1 | 2 | 3 => {
            // link to a certificate of epoch ej + d, d in {+1, +2, -2, (and -1/0 as valid controls)}
            let d: i64 = [1, 2, -2, -1][which as usize];
            // every (certificate, target) pair at epoch distance d; pick one
            let pairs: Vec<(usize, usize)> = std
                .iter()
                .flat_map(|&j| (0..n).filter(move |&q| q != j).map(move |q| (j, q)))
                .filter(|&(j, q)| *a[q].epoch as i64 == *a[j].epoch as i64 + d && a[q].hash != a[j].previous_hash)
                .collect();
            if pairs.is_empty() { return None }
            let (j, q) = *rng.pick(&pairs);
            let ej = *a[j].epoch;
            let mut c = a[j].clone();
            let want = ej as i64 + d;
            c.previous_hash = a[q].hash.clone();
            rehash(&mut c);
            let mut t = table_of(&a);
            t.push((c.hash.clone(), c.clone()));
            let valid = d == -1 && a[q].protocol_message.get_message_part(&K::NextAggregateVerificationKey).map(|s| *s == c.aggregate_verification_key.to_json_hex().unwrap()).unwrap_or(false);
            Some(Tampered { kind: format!("link-epoch{:+}", d), table: t, start: c, must_reject: !valid, note: format!("cert {} (epoch {}) chained to cert {} (epoch {})", j, ej, q, want) })
        }
        4 => {
            // epoch field moved to the parent's epoch, everything else untouched, hash recomputed:
            // only the epoch-in-signed-message rule can reject when the AVK is constant
            let cands: Vec<usize> = std.iter().cloned().filter(|&j| a.iter().any(|p| p.hash == a[j].previous_hash && p.epoch != a[j].epoch)).collect();
            if cands.is_empty() { return None }
            let j = *rng.pick(&cands);
            let mut c = a[j].clone();
            let parent = a.iter().position(|p| p.hash == a[j].previous_hash)?;
            c.epoch = a[parent].epoch;
            rehash(&mut c);
            let mut t = table_of(&a);
            t.push((c.hash.clone(), c.clone()));
            Some(Tampered { kind: "epoch-field-to-parent-epoch".into(), table: t, start: c, must_reject: true, note: format!("cert {} claims its parent's epoch", j) })
        }
        _ => {
            // same-epoch link with the adversary's AVK and a valid adversary multi-signature
            let cands: Vec<usize> = std.iter().cloned().filter(|&j| a.iter().any(|p| p.hash == a[j].previous_hash && p.epoch == a[j].epoch)).collect();
            if cands.is_empty() { return None }
            let j = *rng.pick(&cands);
            let mut c = a[j].clone();
            if !g.resign_b(&mut c) { return None }
            rehash(&mut c);
            let mut t = table_of(&a);
            t.push((c.hash.clone(), c.clone()));
            Some(Tampered { kind: "same-epoch-adversary-avk".into(), table: t, start: c, must_reject: true, note: format!("cert {} re-signed by the adversary, parent in the same epoch", j) })
        }
    }
}

fn run_case(rt: &tokio::runtime::Runtime, g: &Group, t: &Tampered) -> (u64, String) {
    // implementation
    let map: HashMap<String, Certificate> = {
        let mut m = HashMap::new();
        for (k, c) in t.table.iter() {
            m.entry(k.clone()).or_insert_with(|| c.clone()); // first entry wins, as `lookup` in the model
        }
        m
    };
    let verifier = MithrilCertificateVerifier::new(
        slog::Logger::root(slog::Discard, slog::o!()),
        Arc::new(MapRetriever(map)),
        Arc::new(g.a.genesis_verifier.clone()),
    );
    let start = t.start.clone();
    let out = hc::catch(std::panic::AssertUnwindSafe(|| rt.block_on(verifier.verify_certificate_chain(start)).is_ok()));
    let obs = match out { Some(true) => 0, Some(false) => 1, None => 2 };
    // model term
    let mut ctx = Ctx { strings: HashMap::new(), avk_ids: HashMap::new(), msigs: g.msigs.clone(), gsigs: g.gsigs.clone(), pps: vec![], lets: vec![], names: HashMap::new(), n: 0 };
    // honest originals first (bottom-up), then everything the case serves, in dependency order
    for c in g.a.certificates_chained.iter().rev() {
        // register AVK ids before protocol messages mention them
        ctx.avk_id(&c.aggregate_verification_key.to_json_hex().unwrap());
    }
    for e in 1..=(g.a.certificates_chained[0].epoch.0 + 2) {
        for n in [g.signers_a(e), g.signers_b(e)] {
            let fx = fixture(&g.params, n);
            ctx.avk_id(&fx.compute_and_encode_concatenation_aggregate_verification_key());
        }
    }
    for c in g.a.certificates_chained.iter().rev() {
        ctx.node(c);
    }
    let mut pending: Vec<Certificate> = t.table.iter().map(|(_, c)| c.clone()).collect();
    pending.push(t.start.clone());
    while !pending.is_empty() {
        let idx = (0..pending.len())
            .find(|&i| !pending.iter().enumerate().any(|(k, o)| k != i && o.hash == pending[i].previous_hash && o.hash != pending[i].hash && !ctx.strings.contains_key(&o.hash)))
            .unwrap_or(0);
        let c = pending.remove(idx);
        ctx.node(&c);
    }
    let entries: Vec<String> = t.table.iter().map(|(k, c)| format!("({}, {})", ctx.sym(k), ctx.names[&format!("{:#?}", c)])).collect();
    let start_name = ctx.names[&format!("{:#?}", t.start)].clone();
    let model = format!("C03.Model.run 1 ({} ({}, {}))", ctx.lets.join(" "), coq::list(&entries), start_name);
    (obs, model)
}

fn main() {
    let args = hc::parse_args();
    let mut rng = Rng::new(args.seed);
    let mut sink = Sink::new(&args);
    let rt = tokio::runtime::Builder::new_current_thread().enable_all().build().unwrap();
    let (n_groups, per_group) = if args.thorough { (12, 60) } else { (4, 34) };
    for gi in 0..n_groups {
        let mut gr = rng.fork();
        // building a group is expensive: skip it entirely when --only selects a case of another group
        let first_id = gi as u64 * (per_group + 6);
        if let Some(o) = args.only {
            if o < first_id || o >= first_id + per_group + 6 {
                for _ in 0..(per_group + 6) { sink.wants(); }
                continue;
            }
        }
        let mut g = build_group(&mut gr, gi as u64);
        for ci in 0..(per_group + 6) {
            let mut r = gr.fork();
            let Some(id) = sink.wants() else { continue };
            let t = if ci < 6 {
                match boundary(&mut r, &mut g, ci) {
                    Some(t) => t,
                    None => tamper(&mut r, &mut g),
                }
            } else {
                tamper(&mut r, &mut g)
            };
            let (obs, model) = run_case(&rt, &g, &t);
            let accepted = obs == 0;
            let holds = !(accepted && t.must_reject) && obs != 2;
            sink.push(Case {
                id,
                kind: t.kind.clone(),
                desc: serde_json::json!({
                    "chain": {"certificates": g.a.certificates_chained.len(), "per_epoch": g.per_epoch, "constant_avk": g.constant_avk,
                              "k": g.params.k, "m": g.params.m, "phi_f": g.params.phi_f},
                    "tampering": t.note, "start_epoch": *t.start.epoch, "start_hash": t.start.hash, "served": t.table.len(),
                    "violates_property": t.must_reject }),
                model: Some(model),
                impl_obs: coq::oz(obs as i128),
                holds: Some(holds),
                why: if holds { None } else if obs == 2 { Some("the verifier panicked".into()) } else { Some(format!("accepted although the chain violates the property: {} ({})", t.kind, t.note)) },
                known: None,
                nontrivial: t.kind != "untouched",
                key: format!("{}/{}/{}", gi, t.kind, t.note),
            });
        }
    }
    sink.finish();
}
