//! C17 correspondence harness: beacons to sign.
//! Runs the real `compute_block_number_to_be_signed` (both configs), `BlockRange::start`
//! and `SignedEntityConfig::time_point_to_signed_entity` on a boundary grid plus PRNG
//! cases; prints the model call and the implementation's observation per case, and
//! judges the property itself on the implementation's answers (independent oracle).
use hc::{coq, Case, Rng, Sink};
use mithril_common::entities::{
    BlockNumber, BlockNumberOffset, BlockRange, CardanoBlocksTransactionsSigningConfig,
    CardanoTransactionsSigningConfig, ChainPoint, Epoch, SignedEntityConfig, SignedEntityType,
    SignedEntityTypeDiscriminants as D, SlotNumber, TimePoint,
};
use std::collections::BTreeSet;

#[derive(Clone, Copy)]
struct In {
    tip: u64,
    sec: u64,
    step: u64,
    epoch: u64,
    imm: u64,
}

fn entity_obs(e: &SignedEntityType) -> String {
    match e {
        SignedEntityType::MithrilStakeDistribution(e) => coq::ol(&[coq::oz(0), coq::on(**e)]),
        SignedEntityType::CardanoStakeDistribution(e) => coq::ol(&[coq::oz(1), coq::on(**e)]),
        SignedEntityType::CardanoTransactions(e, b) => coq::ol(&[coq::oz(2), coq::on(**e), coq::on(**b)]),
        SignedEntityType::CardanoBlocksTransactions(e, b, o) => {
            coq::ol(&[coq::oz(3), coq::on(**e), coq::on(**b), coq::on(**o)])
        }
        SignedEntityType::CardanoDatabase(b) => coq::ol(&[coq::oz(4), coq::on(*b.epoch), coq::on(b.immutable_file_number)]),
        #[allow(unreachable_patterns)]
        _ => coq::ol(&[coq::oz(99)]),
    }
}

struct Out {
    tx: u64,
    blocks: u64,
    rstart: u64,
    entities: Vec<Option<Option<SignedEntityType>>>, // outer None = panic
}

fn run_impl(i: In) -> Option<Out> {
    hc::catch(move || {
        let txc = CardanoTransactionsSigningConfig {
            security_parameter: BlockNumberOffset(i.sec),
            step: BlockNumber(i.step),
        };
        let btc = CardanoBlocksTransactionsSigningConfig {
            security_parameter: BlockNumberOffset(i.sec),
            step: BlockNumber(i.step),
        };
        let tx = *txc.compute_block_number_to_be_signed(BlockNumber(i.tip));
        let blocks = *btc.compute_block_number_to_be_signed(BlockNumber(i.tip));
        let rstart = *BlockRange::start(BlockNumber(i.tip));
        let cfg = SignedEntityConfig {
            allowed_discriminants: BTreeSet::new(),
            cardano_transactions_signing_config: Some(txc),
            cardano_blocks_transactions_signing_config: Some(btc),
        };
        let tp = TimePoint {
            epoch: Epoch(i.epoch),
            immutable_file_number: i.imm,
            chain_point: ChainPoint {
                slot_number: SlotNumber(i.tip.wrapping_mul(20)),
                block_number: BlockNumber(i.tip),
                block_hash: format!("hash-{}", i.tip),
            },
        };
        let entities = [
            D::MithrilStakeDistribution,
            D::CardanoStakeDistribution,
            D::CardanoTransactions,
            D::CardanoBlocksTransactions,
            D::CardanoDatabase,
        ]
        .into_iter()
        .map(|d| hc::catch(std::panic::AssertUnwindSafe(|| cfg.time_point_to_signed_entity(d, &tp).ok())))
        .collect();
        Out { tx, blocks, rstart, entities }
    })
}

fn obs_of(o: &Option<Out>) -> String {
    match o {
        None => coq::ores_panic(),
        Some(o) => coq::ol(&[
            coq::on(o.tx),
            coq::on(o.blocks),
            coq::on(o.rstart),
            coq::ol(
                &o.entities
                    .iter()
                    .map(|e| match e {
                        Some(Some(e)) => coq::ores_ok(entity_obs(e)),
                        Some(None) => coq::ores_err(),
                        None => coq::ores_panic(),
                    })
                    .collect::<Vec<_>>(),
            ),
        ]),
    }
}

/// The property judged on the implementation's answers only (u128 arithmetic, no model).
fn judge(i: In, o: &Option<Out>, o_next: &Option<Out>, tip_next: u64) -> Result<(), String> {
    const L: u128 = 15;
    let o = o.as_ref().ok_or("implementation panicked")?;
    let margin = (i.tip as u128).saturating_sub(i.sec as u128);
    let (tx, bl) = (o.tx as u128, o.blocks as u128);
    if tx > margin {
        return Err(format!("tx beacon {} above margin {}", tx, margin));
    }
    if bl > margin {
        return Err(format!("blocks beacon {} above margin {}", bl, margin));
    }
    let bstep = std::cmp::max(i.step as u128, 1);
    if bl % bstep != 0 {
        return Err(format!("blocks beacon {} not a multiple of step {}", bl, bstep));
    }
    if bl + bstep <= margin {
        return Err(format!("blocks beacon {} is not the greatest step multiple below {}", bl, margin));
    }
    let astep = std::cmp::max((i.step as u128) / L * L, L);
    if margin >= astep {
        if (tx + 1) % L != 0 {
            return Err(format!("tx beacon {} does not end a block range", tx));
        }
        if (tx + 1) % astep != 0 {
            return Err(format!("tx beacon {}+1 not a multiple of the adjusted step {}", tx, astep));
        }
        if tx + 1 + astep <= margin {
            return Err(format!("tx beacon {} lags more than one step behind margin {}", tx, margin));
        }
    } else if tx != 0 {
        return Err(format!("tx beacon {} before the first step", tx));
    }
    // monotone along successive time points
    let n = o_next.as_ref().ok_or("implementation panicked on the later tip")?;
    if n.tx < o.tx || n.blocks < o.blocks {
        return Err(format!("beacon decreased when the tip advanced {} -> {}", i.tip, tip_next));
    }
    // entities carry exactly those beacons
    match &o.entities[2] {
        Some(Some(SignedEntityType::CardanoTransactions(e, b))) if **e == i.epoch && **b == o.tx => {}
        other => return Err(format!("CardanoTransactions entity mismatch: {:?}", other)),
    }
    match &o.entities[3] {
        Some(Some(SignedEntityType::CardanoBlocksTransactions(e, b, off)))
            if **e == i.epoch && **b == o.blocks && **off == i.sec => {}
        other => return Err(format!("CardanoBlocksTransactions entity mismatch: {:?}", other)),
    }
    Ok(())
}

fn main() {
    let args = hc::parse_args();
    let mut rng = Rng::new(args.seed);
    let mut sink = Sink::new(&args);
    let max = u64::MAX;

    let mut inputs: Vec<(String, In, u64)> = vec![];
    // boundary grid
    let tips = [0u64, 1, 14, 15, 16, 29, 30, 31, 44, 45, 59, 60, 100, 1_000, 123_456, max - 16, max - 15, max - 1, max];
    let secs = [0u64, 1, 14, 15, 16, 100, 2160, max];
    let steps = [0u64, 1, 2, 14, 15, 16, 29, 30, 31, 45, 100, 2160, max - 30, max - 15, max - 14, max - 1, max];
    for &tip in &tips {
        for &sec in &secs {
            for &step in &steps {
                let d = [0u64, 1, 15, 30][(tip.wrapping_add(sec).wrapping_add(step) % 4) as usize];
                inputs.push(("grid".into(), In { tip, sec, step, epoch: (tip % 3), imm: sec % 7 }, tip.saturating_add(d)));
            }
        }
    }
    // PRNG cases: small (dense around boundaries), medium, and full-width
    let n_rand = if args.thorough { 200_000 } else { 3_000 };
    for _ in 0..n_rand {
        let class = rng.below(4);
        let (kind, i) = match class {
            0 => ("small", In { tip: rng.below(200), sec: rng.below(40), step: rng.below(70), epoch: rng.below(3), imm: rng.below(5) }),
            1 => ("medium", In { tip: rng.below(20_000_000), sec: rng.below(5_000), step: rng.below(5_000), epoch: rng.below(1000), imm: rng.below(50_000) }),
            2 => ("wide", In { tip: rng.next(), sec: rng.next() >> rng.below(64), step: rng.next() >> rng.below(64), epoch: [rng.next(), rng.next() >> 1, (1u64 << 63) - 1 + rng.below(3)][rng.below(3) as usize], imm: rng.next() }),
            _ => {
                // tip - sec right at a multiple of the adjusted step
                let step = rng.range(0, 100);
                let a = std::cmp::max(step / 15 * 15, 15);
                let sec = rng.below(50);
                let m = rng.range(0, 20) * a + sec;
                let tip = (m as i128 + rng.range(0, 2) as i128 - 1).max(0) as u64;
                ("at-step-multiple", In { tip, sec, step, epoch: rng.below(3), imm: 0 })
            }
        };
        let d = [0u64, 1, rng.below(100), rng.next() >> rng.below(64)][rng.below(4) as usize];
        inputs.push((kind.into(), i, i.tip.saturating_add(d)));
    }

    for (kind, i, tip2) in inputs {
        let Some(id) = sink.wants() else { continue };
        let o = run_impl(i);
        let o2 = run_impl(In { tip: tip2, ..i });
        let verdict = judge(i, &o, &o2, tip2);
        let margin = (i.tip as u128).saturating_sub(i.sec as u128);
        let astep = std::cmp::max((i.step as u128) / 15 * 15, 15);
        sink.push(Case {
            id,
            kind,
            desc: serde_json::json!({"tip": i.tip, "sec": i.sec, "step": i.step, "epoch": i.epoch, "imm": i.imm, "later_tip": tip2}),
            model: Some(format!(
                "C17.Model.run {} {} {} {} {}",
                coq::n(i.tip), coq::n(i.sec), coq::n(i.step), coq::n(i.epoch), coq::n(i.imm)
            )),
            impl_obs: obs_of(&o),
            holds: Some(verdict.is_ok()),
            why: verdict.err(),
            known: None,
            // non-trivial: the margin is positive and at least one step fits below it
            nontrivial: margin >= astep || margin >= std::cmp::max(i.step as u128, 1),
            key: format!("{}/{}/{}", i.tip, i.sec, i.step),
        });
    }
    sink.finish();
}
