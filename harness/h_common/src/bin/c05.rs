//! C05 correspondence harness: decoders never crash and honest values round-trip.
//!
//! Every case feeds one input (bytes / hex string / JSON-hex string / JSON document) to one public
//! decoding entry point of mithril-stm or mithril-common, inside a panic catcher and under a
//! counting global allocator.  The property is judged from provenance only:
//!   * the call returned (Ok or Err): no panic, no abort;
//!   * the largest single allocation request made while decoding is <= 64*len + 1 MiB;
//!   * inputs that are encodings of honest values decode to an equal value.
//! For the hand-written legacy parsers of mithril-stm (first byte != 1) and the hex codec the
//! outcome class and the canonical decoded value are also compared with the Coq model
//! (`C05.Model.run`), with blst's group-membership verdicts supplied as an explicit oracle.
//!
//! Aborts (allocation failure, stack overflow) cannot be caught in-process: the cases are run
//! in a worker process; when the worker dies the parent records the case it was running as a
//! property failure and restarts the worker after it.
use hc::{coq, Case, Rng};
use mithril_common::crypto_helper::{
    MKMapProof, MKProof, MKTree, MKTreeStoreInMemory, OpCert, ProtocolKey, TryFromBytes, TryToBytes,
};
use mithril_common::entities::BlockRange;
use mithril_stm::verif_export as vx;
use mithril_stm::{
    AggregateSignature, AggregateSignatureType, AggregateVerificationKeyForConcatenation, AncillaryGenesisData,
    AncillaryProofInput, AncillaryProverData, AncillaryVerifierData, Clerk, Initializer, Parameters, SingleSignature,
    SingleSignatureWithRegisteredParty, VerificationKeyForConcatenation, VerificationKeyProofOfPossessionForConcatenation,
};
use serde::Serialize;
use serde_json::{json, Value};
use std::alloc::{GlobalAlloc, Layout, System};
use std::io::{BufRead, Write};
use std::panic::AssertUnwindSafe;
use std::sync::atomic::{AtomicBool, AtomicU64, AtomicUsize, Ordering::Relaxed};

type D = mithril_stm::MithrilMembershipDigest;
type H = vx::TreeDigest;
type Leaf = vx::MerkleTreeConcatenationLeaf;

// ------------------------------------------------------------------------------------------------
// counting allocator (atomics only, no thread-locals)

struct Counting;
static TRACK: AtomicBool = AtomicBool::new(false);
static MAX_REQ: AtomicUsize = AtomicUsize::new(0);
static TOTAL: AtomicUsize = AtomicUsize::new(0);
/// requests above this are refused while tracking (null => handle_alloc_error => abort), so that an
/// oversized request has the same fatal effect whatever the machine's overcommit policy is
const HARD_CAP: usize = 1 << 31;

#[inline]
fn note(size: usize) -> bool {
    if TRACK.load(Relaxed) {
        MAX_REQ.fetch_max(size, Relaxed);
        TOTAL.fetch_add(size, Relaxed);
        if size > HARD_CAP {
            // leave a trace for the parent before the runtime aborts
            let msg = b"c05: allocation request above 2 GiB refused\n";
            unsafe { libc_write(2, msg.as_ptr(), msg.len()) };
            return false;
        }
    }
    true
}
extern "C" {
    #[link_name = "write"]
    fn libc_write(fd: i32, buf: *const u8, n: usize) -> isize;
}
unsafe impl GlobalAlloc for Counting {
    unsafe fn alloc(&self, l: Layout) -> *mut u8 {
        if !note(l.size()) {
            return std::ptr::null_mut();
        }
        System.alloc(l)
    }
    unsafe fn alloc_zeroed(&self, l: Layout) -> *mut u8 {
        if !note(l.size()) {
            return std::ptr::null_mut();
        }
        System.alloc_zeroed(l)
    }
    unsafe fn realloc(&self, p: *mut u8, l: Layout, new_size: usize) -> *mut u8 {
        if !note(new_size) {
            return std::ptr::null_mut();
        }
        System.realloc(p, l, new_size)
    }
    unsafe fn dealloc(&self, p: *mut u8, l: Layout) {
        System.dealloc(p, l)
    }
}
#[global_allocator]
static GLOBAL: Counting = Counting;

/// what one decoding call did
#[derive(Clone, Debug)]
struct Run {
    class: u8, // 0 Ok, 1 Err, 2 Panic
    val: Option<Value>,
    max_req: usize,
    total: usize,
}

fn measure<T, E>(f: impl FnOnce() -> Result<T, E>) -> (Option<Result<T, E>>, usize, usize) {
    MAX_REQ.store(0, Relaxed);
    TOTAL.store(0, Relaxed);
    TRACK.store(true, Relaxed);
    let r = std::panic::catch_unwind(AssertUnwindSafe(f));
    TRACK.store(false, Relaxed);
    (r.ok(), MAX_REQ.load(Relaxed), TOTAL.load(Relaxed))
}

fn run_with<T, E>(f: impl FnOnce() -> Result<T, E>, canon: impl FnOnce(&T) -> Value) -> Run {
    let (r, max_req, total) = measure(f);
    match r {
        None => Run { class: 2, val: None, max_req, total },
        Some(Err(_)) => Run { class: 1, val: None, max_req, total },
        Some(Ok(t)) => Run { class: 0, val: Some(canon(&t)), max_req, total },
    }
}
fn run<T: Serialize, E>(f: impl FnOnce() -> Result<T, E>) -> Run {
    run_with(f, |t| serde_json::to_value(t).unwrap_or(Value::Null))
}

// ------------------------------------------------------------------------------------------------
// types, canonical values, legacy layouts

#[derive(Clone, Copy, PartialEq, Eq, Debug)]
enum Ty {
    Params = 0,
    SSig = 1,
    SigReg = 2,
    BatchPath = 3,
    BatchCommit = 4,
    MTree = 5,
    Avk = 6,
    Aggr = 7,
    Init = 8,
    Vk = 9,
    VkPop = 10,
}
const MODELLED: [Ty; 11] =
    [Ty::Params, Ty::SSig, Ty::SigReg, Ty::BatchPath, Ty::BatchCommit, Ty::MTree, Ty::Avk, Ty::Aggr, Ty::Init, Ty::Vk, Ty::VkPop];

fn canon_params(p: &Parameters) -> Value {
    json!({"m": p.m, "k": p.k, "phi_bits": p.phi_f.to_bits()})
}
fn canon_init(i: &Initializer) -> Value {
    let mut v = serde_json::to_value(i).unwrap_or(Value::Null);
    v["params"] = canon_params(&i.parameters);
    v
}

/// the versioned decoders of mithril-stm, called directly
fn stm_decode(ty: Ty, b: &[u8]) -> Run {
    match ty {
        Ty::Params => run_with(|| Parameters::from_bytes(b), canon_params),
        Ty::SSig => run(|| SingleSignature::from_bytes::<D>(b)),
        Ty::SigReg => run(|| SingleSignatureWithRegisteredParty::from_bytes::<D>(b)),
        Ty::BatchPath => run(|| vx::MerkleBatchPath::<H>::from_bytes(b)),
        Ty::BatchCommit => run(|| vx::MerkleTreeBatchCommitment::<H, Leaf>::from_bytes(b)),
        Ty::MTree => run(|| vx::MerkleTree::<H, Leaf>::from_bytes(b)),
        Ty::Avk => run(|| AggregateVerificationKeyForConcatenation::<D>::from_bytes(b)),
        Ty::Aggr => run(|| AggregateSignature::<D>::from_bytes(b)),
        Ty::Init => run_with(|| Initializer::from_bytes(b), canon_init),
        Ty::Vk => run(|| VerificationKeyForConcatenation::from_bytes(b)),
        Ty::VkPop => run(|| VerificationKeyProofOfPossessionForConcatenation::from_bytes(b)),
    }
}
/// the same through mithril-common's TryFromBytes wrappers
fn common_decode(ty: Ty, b: &[u8]) -> Option<Run> {
    Some(match ty {
        Ty::Params => run_with(|| Parameters::try_from_bytes(b), canon_params),
        Ty::SSig => run(|| SingleSignature::try_from_bytes(b)),
        Ty::SigReg => run(|| SingleSignatureWithRegisteredParty::try_from_bytes(b)),
        Ty::Avk => run(|| AggregateVerificationKeyForConcatenation::<D>::try_from_bytes(b)),
        Ty::Aggr => run(|| AggregateSignature::<D>::try_from_bytes(b)),
        Ty::Init => run_with(|| Initializer::try_from_bytes(b), canon_init),
        Ty::Vk => run(|| VerificationKeyForConcatenation::try_from_bytes(b)),
        Ty::VkPop => run(|| VerificationKeyProofOfPossessionForConcatenation::try_from_bytes(b)),
        _ => return None,
    })
}
fn common_decode_hex(ty: Ty, s: &str) -> Option<Run> {
    Some(match ty {
        Ty::Params => run_with(|| Parameters::try_from_bytes_hex(s), canon_params),
        Ty::SSig => run(|| SingleSignature::try_from_bytes_hex(s)),
        Ty::SigReg => run(|| SingleSignatureWithRegisteredParty::try_from_bytes_hex(s)),
        Ty::Avk => run(|| AggregateVerificationKeyForConcatenation::<D>::try_from_bytes_hex(s)),
        Ty::Aggr => run(|| AggregateSignature::<D>::try_from_bytes_hex(s)),
        Ty::Init => run_with(|| Initializer::try_from_bytes_hex(s), canon_init),
        Ty::Vk => run(|| VerificationKeyForConcatenation::try_from_bytes_hex(s)),
        Ty::VkPop => run(|| VerificationKeyProofOfPossessionForConcatenation::try_from_bytes_hex(s)),
        _ => return None,
    })
}

fn nums(v: &Value) -> Vec<u64> {
    v.as_array().map(|a| a.iter().map(|x| x.as_u64().unwrap_or(u64::MAX)).collect()).unwrap_or_default()
}
fn bytes_of(v: &Value) -> Vec<u8> {
    nums(v).into_iter().map(|x| x as u8).collect()
}
fn arr(v: &Value) -> Vec<Value> {
    v.as_array().cloned().unwrap_or_default()
}
fn u(v: &Value) -> u64 {
    v.as_u64().unwrap_or(u64::MAX)
}

// ---- canonical value -> Coq observation (same shapes as C05.Model.obs_*)
fn o_params(v: &Value) -> String {
    coq::ol(&[coq::on(u(&v["m"])), coq::on(u(&v["k"])), coq::on(u(&v["phi_bits"]))])
}
fn o_ssig(v: &Value) -> String {
    coq::ol(&[coq::oln(&nums(&v["indexes"])), coq::oln(&nums(&v["sigma"])), coq::on(u(&v["signer_index"]))])
}
fn o_reg(v: &Value) -> String {
    coq::ol(&[coq::oln(&nums(&v[0])), coq::on(u(&v[1]))])
}
fn o_sigreg(v: &Value) -> String {
    coq::ol(&[o_ssig(&v[0]), o_reg(&v[1])])
}
fn o_bp(v: &Value) -> String {
    coq::ol(&[coq::ol(&arr(&v["values"]).iter().map(|x| coq::oln(&nums(x))).collect::<Vec<_>>()), coq::oln(&nums(&v["indices"]))])
}
fn o_bc(v: &Value) -> String {
    coq::ol(&[coq::on(u(&v["nr_leaves"])), coq::oln(&nums(&v["root"]))])
}
fn o_mt(v: &Value) -> String {
    coq::ol(&[coq::on(u(&v["n"])), coq::on(u(&v["leaf_off"])), coq::ol(&arr(&v["nodes"]).iter().map(|x| coq::oln(&nums(x))).collect::<Vec<_>>())])
}
fn o_avk(v: &Value) -> String {
    coq::ol(&[o_bc(&v["mt_commitment"]), coq::on(u(&v["total_stake"]))])
}
fn o_proof(v: &Value) -> String {
    coq::ol(&[coq::ol(&arr(&v["signatures"]).iter().map(o_sigreg).collect::<Vec<_>>()), o_bp(&v["batch_proof"])])
}
fn o_vkpop(v: &Value) -> String {
    // the second half of the proof of possession is accepted unvalidated and re-encoded by blst: not observed
    let pop = nums(&v["pop"]);
    coq::ol(&[coq::oln(&nums(&v["vk"])), coq::oln(&pop[..pop.len().min(48)])])
}
fn o_init(v: &Value) -> String {
    coq::ol(&[coq::on(u(&v["stake"])), o_params(&v["params"]), coq::oln(&nums(&v["sk"])), o_vkpop(&v["pk"])])
}
fn obs_val(ty: Ty, v: &Value) -> String {
    match ty {
        Ty::Params => o_params(v),
        Ty::SSig => o_ssig(v),
        Ty::SigReg => o_sigreg(v),
        Ty::BatchPath => o_bp(v),
        Ty::BatchCommit => o_bc(v),
        Ty::MTree => o_mt(v),
        Ty::Avk => o_avk(v),
        Ty::Aggr => coq::ol(&[coq::oz(0), o_proof(v)]),
        Ty::Init => o_init(v),
        Ty::Vk => coq::oln(&nums(v)),
        Ty::VkPop => o_vkpop(v),
    }
}
fn obs_run(ty: Ty, r: &Run) -> String {
    match r.class {
        0 => coq::ores_ok(obs_val(ty, r.val.as_ref().unwrap_or(&Value::Null))),
        1 => coq::ores_err(),
        _ => coq::ores_panic(),
    }
}

// ---- the legacy layouts (big-endian u64 fields), written from the canonical value
#[derive(Default, Clone)]
struct Enc {
    buf: Vec<u8>,
    fields: Vec<usize>, // offsets of the u64 length / count fields
}
impl Enc {
    fn len_field(&mut self, x: u64) {
        self.fields.push(self.buf.len());
        self.buf.extend_from_slice(&x.to_be_bytes());
    }
    fn u64(&mut self, x: u64) {
        self.buf.extend_from_slice(&x.to_be_bytes());
    }
    fn raw(&mut self, b: &[u8]) {
        self.buf.extend_from_slice(b);
    }
    fn nested(&mut self, e: Enc) {
        let off = self.buf.len();
        self.fields.extend(e.fields.iter().map(|f| f + off));
        self.buf.extend_from_slice(&e.buf);
    }
}
fn e_params(v: &Value) -> Enc {
    let mut e = Enc::default();
    e.u64(u(&v["m"]));
    e.u64(u(&v["k"]));
    e.u64(u(&v["phi_bits"]));
    e
}
fn e_ssig(v: &Value) -> Enc {
    let mut e = Enc::default();
    let idx = nums(&v["indexes"]);
    e.len_field(idx.len() as u64);
    for i in idx {
        e.u64(i);
    }
    e.raw(&bytes_of(&v["sigma"]));
    e.u64(u(&v["signer_index"]));
    e
}
fn e_reg(v: &Value) -> Enc {
    let mut e = Enc::default();
    e.raw(&bytes_of(&v[0]));
    e.u64(u(&v[1]));
    e
}
fn e_sigreg(v: &Value) -> Enc {
    let mut e = Enc::default();
    let (r, s) = (e_reg(&v[1]), e_ssig(&v[0]));
    e.len_field(r.buf.len() as u64);
    e.nested(r);
    e.len_field(s.buf.len() as u64);
    e.nested(s);
    e
}
fn e_bp(v: &Value) -> Enc {
    let mut e = Enc::default();
    let (vals, idx) = (arr(&v["values"]), nums(&v["indices"]));
    e.len_field(vals.len() as u64);
    e.len_field(idx.len() as u64);
    for x in vals {
        e.raw(&bytes_of(&x));
    }
    for i in idx {
        e.u64(i);
    }
    e
}
fn e_bc(v: &Value) -> Enc {
    let mut e = Enc::default();
    e.len_field(u(&v["nr_leaves"]));
    e.raw(&bytes_of(&v["root"]));
    e
}
fn e_mt(v: &Value) -> Enc {
    let mut e = Enc::default();
    e.len_field(u(&v["n"]));
    for x in arr(&v["nodes"]) {
        e.raw(&bytes_of(&x));
    }
    e
}
fn e_avk(v: &Value) -> Enc {
    let mut e = e_bc(&v["mt_commitment"]);
    e.u64(u(&v["total_stake"]));
    e
}
fn e_proof(v: &Value) -> Enc {
    let mut e = Enc::default();
    let sigs = arr(&v["signatures"]);
    e.len_field(sigs.len() as u64);
    for s in sigs {
        let n = e_sigreg(&s);
        e.len_field(n.buf.len() as u64);
        e.nested(n);
    }
    e.nested(e_bp(&v["batch_proof"]));
    e
}
fn e_init(v: &Value) -> Enc {
    let mut e = Enc::default();
    e.u64(u(&v["stake"]));
    e.nested(e_params(&v["params"]));
    e.raw(&bytes_of(&v["sk"]));
    e.raw(&bytes_of(&v["pk"]["vk"]));
    e.raw(&bytes_of(&v["pk"]["pop"]));
    e
}
fn legacy(ty: Ty, v: &Value) -> Enc {
    match ty {
        Ty::Params => e_params(v),
        Ty::SSig => e_ssig(v),
        Ty::SigReg => e_sigreg(v),
        Ty::BatchPath => e_bp(v),
        Ty::BatchCommit => e_bc(v),
        Ty::MTree => e_mt(v),
        Ty::Avk => e_avk(v),
        Ty::Aggr => {
            let mut e = Enc::default();
            e.raw(&[0]);
            e.nested(e_proof(v));
            e
        }
        Ty::Init => e_init(v),
        Ty::Vk => {
            let mut e = Enc::default();
            e.raw(&bytes_of(v));
            e
        }
        Ty::VkPop => {
            let mut e = Enc::default();
            e.raw(&bytes_of(&v["vk"]));
            e.raw(&bytes_of(&v["pop"]));
            e
        }
    }
}

// ------------------------------------------------------------------------------------------------
// honest values

#[derive(Clone)]
struct Honest {
    val: Value,      // canonical value
    cbor: Vec<u8>,   // to_bytes() of the real value (versioned CBOR, or the raw bytes for group elements)
    legacy: Enc,     // legacy layout of the same value
    json: String,    // serde_json of the real value
}
#[derive(Default)]
struct Pool {
    by_ty: Vec<Vec<Honest>>, // indexed by Ty as usize
    vk: Vec<u8>,             // one honest verification key (96 bytes)
    vkpop: Vec<u8>,          // one honest key with proof of possession (192 bytes)
    mkproof: Vec<(Vec<u8>, String)>,
    mkmapproof: Vec<(Vec<u8>, String)>,
    opcert: Vec<(Vec<u8>, String)>,
    messages: Vec<(usize, String)>, // (message type, honest JSON document)
    prover_data: Vec<Vec<u8>>,
    aggr_parts: Vec<AggrParts>,     // honest aggregate signatures taken apart (for the envelope generator)
    mkmap_nest: Option<(Vec<u8>, Vec<u8>)>, // bincode of one nesting level of MKMapProof<BlockRange> (prefix), and of a leaf
}

fn honest<T: Serialize>(ty: Ty, t: &T, val: Value, cbor: Vec<u8>) -> Honest {
    let legacy = legacy(ty, &val);
    Honest { val, cbor, legacy, json: serde_json::to_string(t).unwrap() }
}

fn build_pool(rng: &mut Rng, thorough: bool) -> Pool {
    use mithril_common::test::builder::MithrilFixtureBuilder;
    let mut pool = Pool { by_ty: vec![vec![]; 11], ..Default::default() };
    let mut aggr_parts: Vec<AggrParts> = vec![];
    let configs: &[(usize, u64, u64)] = if thorough { &[(1, 4, 2), (2, 8, 3), (3, 12, 4), (5, 20, 6), (8, 30, 9)] } else { &[(1, 4, 2), (3, 10, 4), (5, 16, 5)] };
    for (ci, &(n, m, k)) in configs.iter().enumerate() {
        let params = Parameters { m, k, phi_f: [0.95, 0.8, 0.99][ci % 3] };
        let mut seed = [0u8; 32];
        seed[..8].copy_from_slice(&rng.below(4).to_be_bytes());
        seed[8] = ci as u8;
        let fixture = MithrilFixtureBuilder::default()
            .with_signers(n)
            .with_protocol_parameters(mithril_common::entities::ProtocolParameters { k, m, phi_f: params.phi_f })
            .with_party_id_seed(seed)
            .build();
        let signers = fixture.signers_fixture();
        let dist: Vec<(String, u64)> = fixture.protocol_stake_distribution();
        let msg = rng.bytes(32);
        let p = &mut pool.by_ty;
        p[Ty::Params as usize].push(honest(Ty::Params, &params, canon_params(&params), params.to_bytes().unwrap()));
        let mut sigs = vec![];
        for sf in &signers {
            let init: Initializer = serde_json::from_value(serde_json::to_value(&sf.protocol_initializer).unwrap()["stm_initializer"].clone()).unwrap();
            p[Ty::Init as usize].push(honest(Ty::Init, &init, canon_init(&init), init.to_bytes().unwrap()));
            let vkpop = init.bls_verification_key_proof_of_possession;
            let vkpop_b = vkpop.to_bytes().to_vec();
            let vkpop_v = serde_json::to_value(vkpop).unwrap();
            p[Ty::VkPop as usize].push(honest(Ty::VkPop, &vkpop, vkpop_v.clone(), vkpop_b.clone()));
            let vk = sf.protocol_signer.get_bls_verification_key();
            p[Ty::Vk as usize].push(honest(Ty::Vk, &vk, serde_json::to_value(vk).unwrap(), vk.to_bytes().to_vec()));
            pool.vk = vk.to_bytes().to_vec();
            pool.vkpop = vkpop_b;
            if let Some(s) = sf.protocol_signer.sign(&msg) {
                p[Ty::SSig as usize].push(honest(Ty::SSig, &s, serde_json::to_value(&s).unwrap(), s.to_bytes().unwrap()));
                sigs.push(s);
            }
        }
        let clerk = Clerk::<D>::new_clerk_from_signer(&signers[0].protocol_signer);
        let avk_full = clerk.compute_aggregate_verification_key();
        let avk = avk_full.to_concatenation_aggregate_verification_key();
        let avk_v = serde_json::to_value(avk).unwrap();
        p[Ty::Avk as usize].push(honest(Ty::Avk, avk, avk_v.clone(), avk.to_bytes().unwrap()));
        let bc = vx::batch_commitment_new::<Leaf>(bytes_of(&avk_v["mt_commitment"]["root"]), u(&avk_v["mt_commitment"]["nr_leaves"]) as usize);
        p[Ty::BatchCommit as usize].push(honest(Ty::BatchCommit, &bc, serde_json::to_value(&bc).unwrap(), bc.to_bytes().unwrap()));
        let leaves: Vec<Leaf> = signers.iter().zip(dist.iter()).map(|(sf, (_, st))| vx::MerkleTreeConcatenationLeaf(sf.protocol_signer.get_bls_verification_key(), *st)).collect();
        let tree = vx::merkle_tree_new(&leaves);
        p[Ty::MTree as usize].push(honest(Ty::MTree, &tree, serde_json::to_value(&tree).unwrap(), tree.to_bytes().unwrap()));
        let mut idx: Vec<usize> = (0..n).filter(|_| rng.coin()).collect();
        if idx.is_empty() {
            idx.push(0);
        }
        let bp = vx::merkle_tree_batch_path(&tree, idx);
        p[Ty::BatchPath as usize].push(honest(Ty::BatchPath, &bp, serde_json::to_value(&bp).unwrap(), bp.to_bytes().unwrap()));
        if let Ok((aggr, _)) = clerk.aggregate_signatures_with_type(&sigs, &msg, AggregateSignatureType::Concatenation, AncillaryProofInput::new(None, AncillaryGenesisData::new())) {
            let v = serde_json::to_value(&aggr).unwrap();
            for sr in arr(&v["signatures"]) {
                let srv: SingleSignatureWithRegisteredParty = serde_json::from_value(sr.clone()).unwrap();
                p[Ty::SigReg as usize].push(honest(Ty::SigReg, &srv, sr, srv.to_bytes().unwrap()));
            }
            let bpv: vx::MerkleBatchPath<H> = serde_json::from_value(v["batch_proof"].clone()).unwrap();
            p[Ty::BatchPath as usize].push(honest(Ty::BatchPath, &bpv, v["batch_proof"].clone(), bpv.to_bytes().unwrap()));
            let mut parts = AggrParts { val: v.clone(), sigs: vec![], bp_cbor: bpv.to_bytes().unwrap(), bp_legacy: e_bp(&v["batch_proof"]), real_cbor: aggr.to_bytes().unwrap() };
            for sr in arr(&v["signatures"]) {
                let sg: SingleSignature = serde_json::from_value(sr[0].clone()).unwrap();
                parts.sigs.push(SigParts { sig_cbor: sg.to_bytes().unwrap(), sig_legacy: e_ssig(&sr[0]), reg_legacy: e_reg(&sr[1]).buf, vk: bytes_of(&sr[1][0]), stake: u(&sr[1][1]) });
            }
            aggr_parts.push(parts);
            p[Ty::Aggr as usize].push(honest(Ty::Aggr, &aggr, v, aggr.to_bytes().unwrap()));
        }
    }
    // Merkle proofs of mithril-merkle-tree (bincode) and other third-party-decoded values
    for n in [1usize, 2, 5, 9] {
        let leaves: Vec<String> = (0..n).map(|i| format!("leaf-{}-{}", i, rng.below(1000))).collect();
        if let Ok(tree) = MKTree::<MKTreeStoreInMemory>::new(&leaves) {
            let some: Vec<String> = leaves.iter().filter(|_| rng.coin()).cloned().collect();
            let some = if some.is_empty() { leaves.clone() } else { some };
            let some_nodes: Vec<mithril_common::crypto_helper::MKTreeNode> = some.iter().map(|s| s.to_owned().into()).collect();
            if let Ok(pr) = tree.compute_proof(&some_nodes) {
                pool.mkproof.push((pr.to_bytes().unwrap(), serde_json::to_string(&pr).unwrap()));
            }
        }
    }
    {
        use mithril_common::messages::*;
        use mithril_common::test::double::Dummy;
        let part = CardanoTransactionsSetProofMessagePart::dummy();
        let m = CardanoTransactionsProofsMessage::new("cert-hash-123", vec![part.clone()], vec!["tx-9".to_string()], mithril_common::entities::BlockNumber(100));
        if let Ok(k) = ProtocolKey::<MKMapProof<BlockRange>>::from_bytes_hex(&part.proof) {
            let inner: MKMapProof<BlockRange> = k.into_inner();
            pool.mkmapproof.push((inner.to_bytes().unwrap(), serde_json::to_string(&inner).unwrap()));
        }
        pool.messages.push((0, serde_json::to_string(&CertificateMessage::dummy()).unwrap()));
        pool.messages.push((1, serde_json::to_string(&m).unwrap()));
        pool.messages.push((2, serde_json::to_string(&RegisterSignatureMessageHttp::dummy()).unwrap()));
        pool.messages.push((3, serde_json::to_string(&RegisterSignerMessage::dummy()).unwrap()));
    }
    {
        use mithril_common::test::double::fake_keys;
        for s in fake_keys::operational_certificate().iter().take(2) {
            if let Ok(k) = ProtocolKey::<OpCert>::from_json_hex(s) {
                let oc: OpCert = k.into_inner();
                if let Ok(b) = oc.to_bytes_vec() {
                    pool.opcert.push((b, serde_json::to_string(&oc).unwrap()));
                }
            }
        }
    }
    let _ = &pool.prover_data;
    {
        // one level = master proof ++ varint(1 sub-proof) ++ key ++ <nested>; a leaf = master proof ++ varint(0).
        // smallest master proof: empty root, no leaves, size 0, no items; checked against the real decoder here
        let candidates: Vec<(Vec<u8>, Vec<u8>)> = {
            let mut c = vec![(vec![0u8, 0, 0, 0, 1, 0, 15], vec![0u8, 0, 0, 0, 0])];
            if let Some((b, _)) = pool.mkmapproof.first() {
                // an honest proof with no sub-proof would end with varint(0): derive a level from it when it does
                if b.last() == Some(&0) {
                    let mut pre = b[..b.len() - 1].to_vec();
                    pre.extend_from_slice(&[1, 0, 15]);
                    c.push((pre, b.clone()));
                }
            }
            c
        };
        for (pre, leaf) in candidates {
            let mut two = pre.clone();
            two.extend_from_slice(&pre);
            two.extend_from_slice(&leaf);
            if MKMapProof::<BlockRange>::from_bytes(&leaf).is_ok() && MKMapProof::<BlockRange>::from_bytes(&two).is_ok() {
                pool.mkmap_nest = Some((pre, leaf));
                break;
            }
        }
    }
    pool.aggr_parts = aggr_parts;
    pool
}

// ------------------------------------------------------------------------------------------------
// blst verdicts as an explicit oracle for the model (only windows of the input can be queried)

fn valid_sig48(w: &[u8]) -> bool {
    let mut b = vec![0u8; 8];
    b.extend_from_slice(w);
    b.extend_from_slice(&[0u8; 8]);
    SingleSignature::from_bytes::<D>(&b).is_ok()
}
fn valid_vk96(w: &[u8]) -> bool {
    VerificationKeyForConcatenation::from_bytes(w).is_ok()
}
fn valid_k1(pool: &Pool, w: &[u8]) -> bool {
    let mut b = pool.vk.clone();
    b.extend_from_slice(w);
    b.extend_from_slice(&[0u8; 48]);
    VerificationKeyProofOfPossessionForConcatenation::from_bytes(&b).is_ok()
}
fn valid_sk32(pool: &Pool, w: &[u8]) -> bool {
    let mut b = vec![0u8; 32];
    b.extend_from_slice(w);
    b.extend_from_slice(&pool.vkpop);
    Initializer::from_bytes(&b).is_ok()
}
fn oracle_term(pool: &Pool, ty: Ty, b: &[u8], env: Option<&EnvInfo>) -> String {
    let mut items: Vec<String> = vec![];
    oracle_items(pool, ty, b, &mut items);
    if let Some(e) = env {
        // the windows the inner decoders can query lie inside the envelope's byte strings
        for r in &e.raw {
            oracle_items(pool, ty, r, &mut items);
        }
        let mut seen = std::collections::HashSet::new();
        items.retain(|x| seen.insert(x.clone()));
    }
    format!("[{}]", items.join("; "))
}
fn oracle_items(pool: &Pool, ty: Ty, b: &[u8], items: &mut Vec<String>) {
    let mut push = |kind: u64, w: &[u8]| items.push(format!("({}, {})", kind, coq::list(&w.iter().map(|x| x.to_string()).collect::<Vec<_>>())));
    if matches!(ty, Ty::SSig | Ty::SigReg | Ty::Aggr) && b.len() >= 48 {
        for i in 0..=b.len() - 48 {
            if b[i] & 0x80 != 0 && valid_sig48(&b[i..i + 48]) {
                push(0, &b[i..i + 48]);
            }
        }
    }
    if matches!(ty, Ty::SigReg | Ty::Aggr | Ty::Vk | Ty::VkPop | Ty::Init) && b.len() >= 96 {
        for i in 0..=b.len() - 96 {
            if b[i] & 0x80 != 0 && valid_vk96(&b[i..i + 96]) {
                push(1, &b[i..i + 96]);
            }
        }
    }
    let k1_at = match ty {
        Ty::VkPop => Some(96),
        Ty::Init => Some(160),
        _ => None,
    };
    if let Some(o) = k1_at {
        if b.len() >= o + 48 && valid_k1(pool, &b[o..o + 48]) {
            push(3, &b[o..o + 48]);
        }
    }
    if ty == Ty::Init && b.len() >= 64 && valid_sk32(pool, &b[32..64]) {
        push(2, &b[32..64]);
    }
}
fn model_term(pool: &Pool, ty: Ty, b: &[u8], impl_obs: &str, wrapping: bool, env: Option<&EnvInfo>) -> String {
    if let Some(e) = env {
        return format!(
            "rc (run_env {} {} {} [{}] {}) ({})",
            ty as u64,
            if wrapping { "Wrapping" } else { "Checked" },
            oracle_term(pool, ty, b, env),
            e.entries.join("; "),
            coq::list(&b.iter().map(|x| x.to_string()).collect::<Vec<_>>()),
            impl_obs
        );
    }
    format!(
        "rc (run {} {} {} {}) ({})",
        ty as u64,
        if wrapping { "Wrapping" } else { "Checked" },
        oracle_term(pool, ty, b, None),
        coq::list(&b.iter().map(|x| x.to_string()).collect::<Vec<_>>()),
        impl_obs
    )
}

// ------------------------------------------------------------------------------------------------
// entry points

#[derive(Clone, Copy, Debug, PartialEq, Eq)]
enum Entry {
    Stm(Ty),           // mithril_stm::T::from_bytes
    Common(Ty),        // TryFromBytes::try_from_bytes
    CommonHex(Ty),     // TryFromBytes::try_from_bytes_hex
    KeyStr(u8),        // TryFrom<&str> for ProtocolKey<T>   (codec order of the type)
    KeySerde(u8),      // serde_json::from_str::<ProtocolKey<T>>
    KeyBytesHex(u8),   // ProtocolKey::<T>::from_bytes_hex
    KeyJsonHex(u8),    // ProtocolKey::<T>::from_json_hex
    Bincode(u8),       // MKProof / MKMapProof from_bytes (0 / 1)
    Other(u8),         // remaining TryFromBytes wrappers (CBOR / fixed size third-party decoders)
    JsonStm(Ty),       // serde_json::from_slice::<T>
    JsonMsg(u8),       // serde_json::from_str::<message type>
    Hex,               // Vec::<u8>::from_hex (modelled)
}
// ProtocolKey instantiations: 0 aggregate signature, 1 single signature, 2 AVK, 3 key+PoP, 4 MKProof,
// 5 MKMapProof<BlockRange> (no codec: hex entries only), 6 OpCert, 7 KES signature, 8 ed25519 verifying key,
// 9 ed25519 signature (bytes-hex first), 10 ancillary prover data, 11 ancillary verifier data
const N_KEYS: u8 = 12;
fn key_ty(k: u8) -> Option<Ty> {
    match k {
        0 => Some(Ty::Aggr),
        1 => Some(Ty::SSig),
        2 => Some(Ty::Avk),
        3 => Some(Ty::VkPop),
        _ => None,
    }
}
macro_rules! key_dispatch {
    ($k:expr, $f:ident, $arg:expr) => {
        match $k {
            0 => $f::<AggregateSignature<D>>($arg),
            1 => $f::<SingleSignature>($arg),
            2 => $f::<AggregateVerificationKeyForConcatenation<D>>($arg),
            3 => $f::<VerificationKeyProofOfPossessionForConcatenation>($arg),
            4 => $f::<MKProof>($arg),
            6 => $f::<OpCert>($arg),
            7 => $f::<kes_sig::Sum6KesSig>($arg),
            8 => $f::<ed::VerifyingKey>($arg),
            9 => $f::<ed::Signature>($arg),
            10 => $f::<AncillaryProverData>($arg),
            _ => $f::<AncillaryVerifierData>($arg),
        }
    };
}
mod kes_sig {
    pub type Sum6KesSig = <mithril_common::crypto_helper::ProtocolSignerVerificationKeySignatureForConcatenation as std::ops::Deref>::Target;
}
mod ed {
    pub type VerifyingKey = <mithril_common::crypto_helper::ed25519::Ed25519VerificationKey as std::ops::Deref>::Target;
    pub type Signature = <mithril_common::crypto_helper::ed25519::Ed25519Signature as std::ops::Deref>::Target;
}
fn canon_any<T: Serialize>(t: &ProtocolKey<T>) -> Value
where
    T: serde::de::DeserializeOwned,
{
    serde_json::to_value(&**t).unwrap_or(Value::Null)
}
fn key_str<T>(s: &str) -> Run
where
    T: mithril_common::crypto_helper::ProtocolKeyCodec<T> + Serialize + serde::de::DeserializeOwned + TryToBytes + TryFromBytes,
{
    run_with(|| ProtocolKey::<T>::try_from(s), canon_any)
}
fn key_serde<T>(s: &str) -> Run
where
    T: mithril_common::crypto_helper::ProtocolKeyCodec<T> + Serialize + serde::de::DeserializeOwned + TryToBytes + TryFromBytes,
{
    run_with(|| serde_json::from_str::<ProtocolKey<T>>(s), canon_any)
}
fn key_bytes_hex<T>(s: &str) -> Run
where
    T: Serialize + serde::de::DeserializeOwned + TryToBytes + TryFromBytes,
{
    run_with(|| ProtocolKey::<T>::from_bytes_hex(s), canon_any)
}
fn key_json_hex<T>(s: &str) -> Run
where
    T: Serialize + serde::de::DeserializeOwned + TryToBytes + TryFromBytes,
{
    run_with(|| ProtocolKey::<T>::from_json_hex(s), canon_any)
}

/// run an entry point on an input given as bytes (`b`) or text (`s`)
fn exec(e: Entry, b: &[u8], s: &str) -> Run {
    match e {
        Entry::Stm(ty) => stm_decode(ty, b),
        Entry::Common(ty) => common_decode(ty, b).unwrap_or_else(|| stm_decode(ty, b)),
        Entry::CommonHex(ty) => common_decode_hex(ty, s).unwrap_or_else(|| stm_decode(ty, b)),
        Entry::KeyStr(k) => key_dispatch!(k, key_str, s),
        Entry::KeySerde(k) => key_dispatch!(k, key_serde, s),
        Entry::KeyBytesHex(5) => key_bytes_hex::<MKMapProof<BlockRange>>(s),
        Entry::KeyJsonHex(5) => key_json_hex::<MKMapProof<BlockRange>>(s),
        Entry::KeyBytesHex(k) => key_dispatch!(k, key_bytes_hex, s),
        Entry::KeyJsonHex(k) => key_dispatch!(k, key_json_hex, s),
        Entry::Bincode(0) => run(|| MKProof::from_bytes(b)),
        Entry::Bincode(_) => run(|| MKMapProof::<BlockRange>::from_bytes(b)),
        Entry::Other(0) => run(|| OpCert::try_from_bytes(b)),
        Entry::Other(1) => run(|| kes_sig::Sum6KesSig::try_from_bytes(b)),
        Entry::Other(2) => run(|| ed::VerifyingKey::try_from_bytes(b)),
        Entry::Other(3) => run(|| ed::Signature::try_from_bytes(b)),
        Entry::Other(4) => run(|| AncillaryProverData::try_from_bytes(b)),
        Entry::Other(5) => run(|| AncillaryVerifierData::try_from_bytes(b)),
        Entry::Other(6) => run(|| MKProof::try_from_bytes(b)),
        Entry::Other(_) => run(|| MKMapProof::<BlockRange>::try_from_bytes(b)),
        Entry::JsonStm(ty) => match ty {
            Ty::Params => run_with(|| serde_json::from_slice::<Parameters>(b), canon_params),
            Ty::SSig => run(|| serde_json::from_slice::<SingleSignature>(b)),
            Ty::SigReg => run(|| serde_json::from_slice::<SingleSignatureWithRegisteredParty>(b)),
            Ty::BatchPath => run(|| serde_json::from_slice::<vx::MerkleBatchPath<H>>(b)),
            Ty::BatchCommit => run(|| serde_json::from_slice::<vx::MerkleTreeBatchCommitment<H, Leaf>>(b)),
            Ty::MTree => run(|| serde_json::from_slice::<vx::MerkleTree<H, Leaf>>(b)),
            Ty::Avk => run(|| serde_json::from_slice::<AggregateVerificationKeyForConcatenation<D>>(b)),
            Ty::Aggr => run(|| serde_json::from_slice::<AggregateSignature<D>>(b)),
            Ty::Init => run_with(|| serde_json::from_slice::<Initializer>(b), canon_init),
            Ty::Vk => run(|| serde_json::from_slice::<VerificationKeyForConcatenation>(b)),
            Ty::VkPop => run(|| serde_json::from_slice::<VerificationKeyProofOfPossessionForConcatenation>(b)),
        },
        Entry::JsonMsg(k) => {
            use mithril_common::messages::*;
            match k {
                0 => run(|| serde_json::from_str::<CertificateMessage>(s)),
                1 => run(|| serde_json::from_str::<CardanoTransactionsProofsMessage>(s)),
                2 => run(|| serde_json::from_str::<RegisterSignatureMessageHttp>(s)),
                _ => run(|| serde_json::from_str::<RegisterSignerMessage>(s)),
            }
        }
        Entry::Hex => run(|| <Vec<u8> as hex::FromHex>::from_hex(s)),
    }
}

// ------------------------------------------------------------------------------------------------
// input generation

const SPECIAL: [u64; 14] = [
    1 << 63,
    u64::MAX,
    1 << 40,
    1 << 32,
    u64::MAX - 7,
    u64::MAX - 8,
    u64::MAX - 15,
    u64::MAX - 16,
    (1 << 61) - 1,
    1 << 61,
    (1 << 63) - 1,
    u64::MAX / 360,
    0,
    1,
];

struct Input {
    kind: String,
    bytes: Vec<u8>,
    /// Some(v): the input is an encoding of the honest value v (must decode to it)
    expect: Option<Value>,
    note: String,
    /// Some: the input was assembled by the harness from CBOR envelopes (provenance for the model's
    /// envelope oracle and for the blst windows inside the envelope's byte strings)
    env: Option<EnvInfo>,
}
#[derive(Clone, Default)]
struct EnvInfo {
    entries: Vec<String>,  // Coq terms (key bytes, entry) of C05.ModelEnv.env
    raw: Vec<Vec<u8>>,     // byte strings handed to inner decoders
}

fn mutate_bytes(rng: &mut Rng, base: &[u8], fields: &[usize]) -> (String, Vec<u8>, String) {
    let mut b = base.to_vec();
    let len = b.len() as u64;
    match rng.below(7) {
        0 => {
            let cut = rng.below(len + 1) as usize;
            b.truncate(cut);
            ("truncate".into(), b, format!("cut at {}", cut))
        }
        1 => {
            let extra = rng.range(1, 24) as usize;
            b.extend(rng.bytes(extra));
            ("extend".into(), b, format!("{} trailing bytes", extra))
        }
        2 | 3 if !fields.is_empty() => {
            // length-prefix inflation of one u64 field
            let f = *rng.pick(fields);
            let old = u64::from_be_bytes(b[f..f + 8].try_into().unwrap());
            let choices = [len, len + 1, len.wrapping_sub(1), old.wrapping_add(1), old.wrapping_sub(1), len - f as u64, (len - f as u64) / 8, old.wrapping_mul(2), rng.next(), rng.next() >> rng.below(64)];
            let c = rng.below((SPECIAL.len() + choices.len()) as u64) as usize;
            let v = if c < SPECIAL.len() { SPECIAL[c] } else { choices[c - SPECIAL.len()] };
            b[f..f + 8].copy_from_slice(&v.to_be_bytes());
            ("inflate".into(), b, format!("u64 field at {} : {} -> {}", f, old, v))
        }
        4 if len > 0 => {
            let n = rng.range(1, 3);
            let mut notes = vec![];
            for _ in 0..n {
                let i = rng.below(len) as usize;
                let bit = rng.below(8);
                b[i] ^= 1 << bit;
                notes.push(format!("{}:{}", i, bit));
            }
            ("bitflip".into(), b, notes.join(","))
        }
        5 if len > 0 => {
            let i = rng.below(len) as usize;
            let v = *rng.pick(&[0u8, 1, 2, 0x7f, 0x80, 0xff, 0x5b, 0x9b, 0xbb, 0x3b, 0x1b]);
            b[i] = v;
            ("byteset".into(), b, format!("byte {} := {}", i, v))
        }
        _ if len >= 9 => {
            // CBOR-style / generic length inflation: a header byte followed by a huge big-endian length
            let i = rng.below(len - 8) as usize;
            b[i] = *rng.pick(&[0x5bu8, 0x9b, 0xbb, 0x7b, 0x5a, 0x9a]);
            let v = *rng.pick(&SPECIAL);
            b[i + 1..i + 9].copy_from_slice(&v.to_be_bytes());
            ("cbor-inflate".into(), b, format!("header at {} length {}", i, v))
        }
        _ => {
            b.reverse();
            ("reverse".into(), b, String::new())
        }
    }
}

fn random_bytes(rng: &mut Rng) -> Vec<u8> {
    let len = match rng.below(10) {
        0 => 0,
        1..=5 => rng.below(64),
        6..=8 => rng.below(300),
        _ => rng.below(1200),
    } as usize;
    let mut b = rng.bytes(len);
    if len > 0 {
        match rng.below(4) {
            0 => b[0] = 0,
            1 => b[0] = 1,
            2 => b[0] = rng.below(4) as u8,
            _ => {}
        }
        // small big-endian counts in the leading u64 fields make the parsers go deeper
        if rng.coin() {
            for f in 0..2 {
                if len >= 8 * (f + 1) + (b[0] == 0 && len % 2 == 1) as usize {
                    let off = 8 * f + if rng.chance(1, 4) { 1 } else { 0 };
                    if off + 8 <= len {
                        let v = if rng.chance(1, 5) { *rng.pick(&SPECIAL) } else { rng.below(6) };
                        b[off..off + 8].copy_from_slice(&v.to_be_bytes());
                    }
                }
            }
        }
    }
    b
}

/// bytes for a decoder of type `ty`
fn gen_for_ty(rng: &mut Rng, pool: &Pool, ty: Ty) -> Input {
    let hs = &pool.by_ty[ty as usize];
    let pick = rng.below(100);
    if hs.is_empty() || pick < 22 {
        return Input { kind: "random".into(), bytes: random_bytes(rng), expect: None, note: String::new(), env: None };
    }
    let h = rng.pick(hs).clone();
    let group = matches!(ty, Ty::Vk | Ty::VkPop);
    let use_legacy = group || rng.chance(3, 5);
    let (base, fields, form): (&[u8], &[usize], &str) = if use_legacy { (&h.legacy.buf, &h.legacy.fields, "legacy") } else { (&h.cbor, &[], "cbor") };
    if pick < 34 {
        return Input { kind: format!("honest-{}", form), bytes: base.to_vec(), expect: Some(h.val.clone()), note: String::new(), env: None };
    }
    let (k, b, note) = mutate_bytes(rng, base, fields);
    Input { kind: format!("{}-{}", form, k), bytes: b, expect: None, note, env: None }
}

fn hex_wrap(rng: &mut Rng, b: &[u8], corrupt: bool) -> (String, &'static str) {
    let mut s = hex::encode(b);
    if !corrupt {
        return (s, "");
    }
    match rng.below(6) {
        0 => {
            s.pop();
            (s, "odd-length")
        }
        1 if !s.is_empty() => {
            let i = rng.below(s.len() as u64) as usize;
            let c = *rng.pick(&['g', 'G', ' ', '\n', 'x', '"', 'é', '\0']);
            let mut cs: Vec<char> = s.chars().collect();
            cs[i] = c;
            (cs.into_iter().collect(), "bad-char")
        }
        2 => (s.to_uppercase(), "uppercase"),
        3 => (format!(" {}\n", s), "whitespace"),
        4 => (format!("0x{}", s), "0x-prefix"),
        _ => (s, ""),
    }
}

fn mutate_json(rng: &mut Rng, doc: &str) -> (String, String) {
    let mut b = doc.as_bytes().to_vec();
    match rng.below(6) {
        0 => {
            let cut = rng.below(b.len() as u64 + 1) as usize;
            b.truncate(cut);
            (String::from_utf8_lossy(&b).into_owned(), format!("json-truncate {}", cut))
        }
        1 => {
            // replace one number by a huge / negative / fractional one
            let digits: Vec<usize> = (0..b.len()).filter(|&i| b[i].is_ascii_digit() && (i == 0 || !b[i - 1].is_ascii_digit())).collect();
            if digits.is_empty() {
                return (doc.to_string(), "json-same".into());
            }
            let i = *rng.pick(&digits);
            let mut j = i;
            while j < b.len() && b[j].is_ascii_digit() {
                j += 1;
            }
            let rep = *rng.pick(&["18446744073709551615", "18446744073709551616", "-1", "1e400", "0.5", "99999999999999999999999999999999", "256", "null", "\"7\""]);
            let mut s = doc[..i].to_string();
            s.push_str(rep);
            s.push_str(&doc[j..]);
            (s, format!("json-number at {} := {}", i, rep))
        }
        2 => {
            let depth = *rng.pick(&[10usize, 200, 5000]);
            ("[".repeat(depth), format!("json-nesting {}", depth))
        }
        3 => {
            let i = rng.below(b.len() as u64) as usize;
            b[i] = *rng.pick(&[b'{', b'}', b'[', b']', b',', b'"', b':', 0, 0xff]);
            (String::from_utf8_lossy(&b).into_owned(), format!("json-byteset {}", i))
        }
        4 => {
            // drop one element of an array / duplicate a comma
            if let Some(i) = doc.find(',') {
                let mut s = doc.to_string();
                s.replace_range(i..i + 1, ",,");
                (s, "json-double-comma".into())
            } else {
                (doc.to_string(), "json-same".into())
            }
        }
        _ => (format!("{}{}", doc, doc), "json-twice".into()),
    }
}

// ------------------------------------------------------------------------------------------------
// CBOR envelopes assembled by the harness (structure-aware: every nesting level in either format)

/// what ciborium emits for the envelope structs: definite maps with text keys, `Vec<u8>` as an array
/// of unsigned integers
fn cb_head(out: &mut Vec<u8>, major: u8, n: u64) {
    let m = major << 5;
    if n < 24 {
        out.push(m | n as u8);
    } else if n < 1 << 8 {
        out.push(m | 24);
        out.push(n as u8);
    } else if n < 1 << 16 {
        out.push(m | 25);
        out.extend_from_slice(&(n as u16).to_be_bytes());
    } else if n < 1 << 32 {
        out.push(m | 26);
        out.extend_from_slice(&(n as u32).to_be_bytes());
    } else {
        out.push(m | 27);
        out.extend_from_slice(&n.to_be_bytes());
    }
}
#[derive(Clone, Debug)]
enum CbV {
    U(u64),
    Neg(u64),
    Bytes(Vec<u8>), // Vec<u8> the serde way: array of unsigned integers
    BStr(Vec<u8>),  // CBOR byte string
    Arr(Vec<CbV>),
    Raw(Vec<u8>),   // pre-encoded item
}
fn cb_val(out: &mut Vec<u8>, v: &CbV) {
    match v {
        CbV::U(n) => cb_head(out, 0, *n),
        CbV::Neg(n) => cb_head(out, 1, *n),
        CbV::Bytes(b) => {
            cb_head(out, 4, b.len() as u64);
            for x in b {
                cb_head(out, 0, *x as u64);
            }
        }
        CbV::BStr(b) => {
            cb_head(out, 2, b.len() as u64);
            out.extend_from_slice(b);
        }
        CbV::Arr(a) => {
            cb_head(out, 4, a.len() as u64);
            for x in a {
                cb_val(out, x);
            }
        }
        CbV::Raw(r) => out.extend_from_slice(r),
    }
}
/// version byte 1 + a CBOR map
fn cb_env(fields: &[(&str, CbV)]) -> Vec<u8> {
    let mut o = vec![1u8];
    cb_head(&mut o, 5, fields.len() as u64);
    for (k, v) in fields {
        cb_head(&mut o, 3, k.len() as u64);
        o.extend_from_slice(k.as_bytes());
        cb_val(&mut o, v);
    }
    o
}

#[derive(Clone)]
struct SigParts {
    sig_cbor: Vec<u8>,
    sig_legacy: Enc,
    reg_legacy: Vec<u8>,
    vk: Vec<u8>,
    stake: u64,
}
#[derive(Clone)]
struct AggrParts {
    val: Value,
    sigs: Vec<SigParts>,
    bp_cbor: Vec<u8>,
    bp_legacy: Enc,
    real_cbor: Vec<u8>,
}
#[derive(Clone, Copy, PartialEq, Eq, Debug)]
enum Node {
    Sig(usize),
    Vk(usize),
    Reg(usize),
    SigReg(usize),
    Bp,
    Proof,
}
/// format of every node (true = CBOR), an optional replacement of one node's bytes, the type tag
#[derive(Clone)]
struct Plan {
    aggr_c: bool,
    proof_c: bool,
    sigreg_c: Vec<bool>,
    sig_c: Vec<bool>,
    reg_c: Vec<bool>,
    bp_c: bool,
    repl: Option<(Node, Vec<u8>)>,
    sig_type: u64,
}
impl Plan {
    fn uniform(n: usize, c: bool) -> Plan {
        Plan { aggr_c: c, proof_c: c, sigreg_c: vec![c; n], sig_c: vec![c; n], reg_c: vec![c; n], bp_c: c, repl: None, sig_type: 0 }
    }
    fn random(rng: &mut Rng, n: usize) -> Plan {
        let mut p = Plan::uniform(n, false);
        p.aggr_c = rng.coin();
        p.proof_c = rng.coin();
        p.bp_c = rng.coin();
        for i in 0..n {
            p.sigreg_c[i] = rng.coin();
            p.sig_c[i] = rng.coin();
            p.reg_c[i] = rng.coin();
        }
        p
    }
    fn describe(&self) -> String {
        let f = |b: bool| if b { 'C' } else { 'L' };
        let per: Vec<String> = (0..self.sig_c.len()).map(|i| format!("{}({}{})", f(self.sigreg_c[i]), f(self.sig_c[i]), f(self.reg_c[i]))).collect();
        format!("aggr {} proof {} [{}] bp {}{}", f(self.aggr_c), f(self.proof_c), per.join(" "), f(self.bp_c), match &self.repl { Some((n, b)) => format!(" ; {:?} := {} bytes", n, b.len()), None => String::new() })
    }
    fn repl(&self, n: Node) -> Option<Vec<u8>> {
        match &self.repl {
            Some((m, b)) if *m == n => Some(b.clone()),
            _ => None,
        }
    }
}
fn coq_bytes(b: &[u8]) -> String {
    coq::list(&b.iter().map(|x| x.to_string()).collect::<Vec<_>>())
}
fn coq_nums(x: &[u64]) -> String {
    coq::list(&x.iter().map(|x| x.to_string()).collect::<Vec<_>>())
}
/// leaf oracle: what the serde-derived CBOR decoder of the leaf type makes of `b` (first byte 1)
fn leaf_ssig(b: &[u8], out: &mut EnvInfo) {
    if b.first() == Some(&1) {
        let r = std::panic::catch_unwind(|| SingleSignature::from_bytes::<D>(b));
        let t = match r {
            Ok(Ok(s)) => {
                let v = serde_json::to_value(&s).unwrap_or(Value::Null);
                format!("(Some (Build_ssig {} {} {}))", coq_nums(&nums(&v["indexes"])), coq_nums(&nums(&v["sigma"])), u(&v["signer_index"]))
            }
            Ok(Err(_)) => "None".to_string(),
            Err(_) => return,
        };
        out.entries.push(format!("({}, ESsig {})", coq_bytes(b), t));
    }
}
fn leaf_bp(b: &[u8], out: &mut EnvInfo) {
    if b.first() == Some(&1) {
        let r = std::panic::catch_unwind(|| vx::MerkleBatchPath::<H>::from_bytes(b));
        let t = match r {
            Ok(Ok(s)) => {
                let v = serde_json::to_value(&s).unwrap_or(Value::Null);
                format!("(Some (Build_bpath {} {}))", coq::list(&arr(&v["values"]).iter().map(|x| coq_nums(&nums(x))).collect::<Vec<_>>()), coq_nums(&nums(&v["indices"])))
            }
            Ok(Err(_)) => "None".to_string(),
            Err(_) => return,
        };
        out.entries.push(format!("({}, EBpath {})", coq_bytes(b), t));
    }
}
fn legacy_frame(parts: &[&[u8]]) -> Vec<u8> {
    let mut o = vec![];
    for p in parts {
        o.extend_from_slice(&(p.len() as u64).to_be_bytes());
        o.extend_from_slice(p);
    }
    o
}
fn build_sigreg(sp: &SigParts, i: usize, plan: &Plan, out: &mut EnvInfo) -> Vec<u8> {
    let sig = plan.repl(Node::Sig(i)).unwrap_or_else(|| if plan.sig_c[i] { sp.sig_cbor.clone() } else { sp.sig_legacy.buf.clone() });
    leaf_ssig(&sig, out);
    out.raw.push(sig.clone());
    let reg = plan.repl(Node::Reg(i)).unwrap_or_else(|| {
        if plan.reg_c[i] {
            let vk = plan.repl(Node::Vk(i)).unwrap_or_else(|| sp.vk.clone());
            let b = cb_env(&[("verification_key_bytes", CbV::Bytes(vk.clone())), ("stake", CbV::U(sp.stake))]);
            out.entries.push(format!("({}, EReg {} {})", coq_bytes(&b), coq_bytes(&vk), sp.stake));
            out.raw.push(vk);
            b
        } else {
            sp.reg_legacy.clone()
        }
    });
    out.raw.push(reg.clone());
    let b = if plan.sigreg_c[i] {
        let b = cb_env(&[("signature_bytes", CbV::Bytes(sig.clone())), ("registration_entry_bytes", CbV::Bytes(reg.clone()))]);
        out.entries.push(format!("({}, ESigReg {} {})", coq_bytes(&b), coq_bytes(&sig), coq_bytes(&reg)));
        b
    } else {
        legacy_frame(&[&reg, &sig])
    };
    let b = plan.repl(Node::SigReg(i)).unwrap_or(b);
    out.raw.push(b.clone());
    b
}
fn build_aggr(ap: &AggrParts, plan: &Plan, out: &mut EnvInfo) -> Vec<u8> {
    let srs: Vec<Vec<u8>> = ap.sigs.iter().enumerate().map(|(i, sp)| build_sigreg(sp, i, plan, out)).collect();
    let bp = plan.repl(Node::Bp).unwrap_or_else(|| if plan.bp_c { ap.bp_cbor.clone() } else { ap.bp_legacy.buf.clone() });
    leaf_bp(&bp, out);
    out.raw.push(bp.clone());
    let proof = plan.repl(Node::Proof).unwrap_or_else(|| {
        if plan.proof_c {
            let b = cb_env(&[("signature_bytes", CbV::Arr(srs.iter().map(|x| CbV::Bytes(x.clone())).collect())), ("batch_proof_bytes", CbV::Bytes(bp.clone()))]);
            out.entries.push(format!("({}, ECProof {} {})", coq_bytes(&b), coq::list(&srs.iter().map(|x| coq_bytes(x)).collect::<Vec<_>>()), coq_bytes(&bp)));
            b
        } else {
            let mut o = (srs.len() as u64).to_be_bytes().to_vec();
            for x in &srs {
                o.extend(legacy_frame(&[x]));
            }
            o.extend_from_slice(&bp);
            o
        }
    });
    out.raw.push(proof.clone());
    if plan.aggr_c {
        let b = cb_env(&[("signature_type", CbV::U(plan.sig_type)), ("proof_bytes", CbV::Bytes(proof.clone()))]);
        if plan.sig_type < 256 {
            out.entries.push(format!("({}, EAggr {} {})", coq_bytes(&b), plan.sig_type, coq_bytes(&proof)));
        }
        b
    } else {
        let mut o = vec![plan.sig_type as u8];
        o.extend_from_slice(&proof);
        o
    }
}

/// replacements of one inner node: (name, bytes)
fn inner_replacements(rng: &mut Rng, honest_legacy: &Enc, honest_cbor: &[u8], other: &[u8], near: &[u64]) -> Vec<(String, Vec<u8>)> {
    let mut v: Vec<(String, Vec<u8>)> = vec![];
    v.push(("empty".into(), vec![]));
    v.push(("only-version-byte".into(), vec![1]));
    v.push(("only-zero".into(), vec![0]));
    for (nm, base) in [("legacy", &honest_legacy.buf[..]), ("cbor", honest_cbor)] {
        if base.is_empty() {
            continue;
        }
        let mut t = base.to_vec();
        t.pop();
        v.push((format!("{}-minus-1", nm), t));
        let cut = rng.below(base.len() as u64) as usize;
        v.push((format!("{}-cut-{}", nm, cut), base[..cut].to_vec()));
        let mut e = base.to_vec();
        e.push(rng.below(256) as u8);
        v.push((format!("{}-plus-1", nm), e));
        let mut e = base.to_vec();
        e.extend(rng.bytes(24));
        v.push((format!("{}-plus-24", nm), e));
        let mut f = base.to_vec();
        let i = rng.below(base.len() as u64) as usize;
        f[i] ^= 1 << rng.below(8);
        v.push((format!("{}-bitflip-{}", nm, i), f));
    }
    for &f in &honest_legacy.fields {
        for &x in near {
            let mut b = honest_legacy.buf.clone();
            b[f..f + 8].copy_from_slice(&x.to_be_bytes());
            v.push((format!("legacy-field-{}:={}", f, x), b));
        }
    }
    v.push(("other-node".into(), other.to_vec()));
    let n = rng.below(200) as usize;
    v.push(("random".into(), rng.bytes(n)));
    v
}

/// more deterministic families: large inputs with inflated counts (a pre-allocation that is out of
/// proportion only shows on inputs of tens of kilobytes), deeply nested CBOR on every CBOR-decoding entry
/// point, deeply nested recursive Merkle map proofs (bincode)
fn extra_families(pool: &Pool, thorough: bool, fixed: &mut Vec<(Entry, Input)>) {
    // ---- large inputs
    let sizes: &[usize] = if thorough { &[1 << 16, 1 << 20] } else { &[1 << 16] };
    for ty in [Ty::Aggr, Ty::SigReg, Ty::SSig, Ty::BatchPath, Ty::MTree, Ty::BatchCommit] {
        let Some(h) = pool.by_ty[ty as usize].iter().max_by_key(|h| h.legacy.fields.len()) else { continue };
        for &size in sizes {
            for &f in h.legacy.fields.iter().take(3) {
                let l = size as u64;
                for v in [l / 8, l / 32, l / 360, l, l * 8, 1 << 32, 1 << 40, u64::MAX / 360, u64::MAX] {
                    let mut b = h.legacy.buf.clone();
                    b.resize(size.max(b.len()), 0);
                    b[f..f + 8].copy_from_slice(&v.to_be_bytes());
                    fixed.push((Entry::Stm(ty), Input { kind: "large-input".into(), bytes: b, expect: None, note: format!("{} bytes, u64 field at {} := {}", size, f, v), env: None }));
                }
            }
        }
    }
    // ---- deeply nested CBOR (arrays, maps, tags) after the version byte
    let depth = if thorough { 1_000_000 } else { 100_000 };
    let shapes: Vec<(&str, Vec<u8>)> = vec![
        ("arrays", std::iter::repeat(0x81u8).take(depth).chain([0u8]).collect()),
        ("maps", std::iter::repeat([0xa1u8, 0x00]).take(depth).flatten().chain([0u8]).collect()),
        ("tags", std::iter::repeat(0xc1u8).take(depth).chain([0u8]).collect()),
        ("indefinite-arrays", std::iter::repeat(0x9fu8).take(depth).collect()),
    ];
    for (name, body) in &shapes {
        let mut b = vec![1u8];
        b.extend_from_slice(body);
        for ty in MODELLED {
            fixed.push((Entry::Stm(ty), Input { kind: "cbor-nesting".into(), bytes: b.clone(), expect: None, note: format!("{} x {}", name, depth), env: None }));
        }
        fixed.push((Entry::KeyBytesHex(0), Input { kind: "cbor-nesting".into(), bytes: b.clone(), expect: None, note: format!("{} x {}", name, depth), env: None }));
        for k in [0u8, 4, 5] {
            // OpCert (raw CBOR, no version byte), ancillary prover / verifier data
            let bytes = if k == 0 { body.clone() } else { b.clone() };
            fixed.push((Entry::Other(k), Input { kind: "cbor-nesting".into(), bytes, expect: None, note: format!("{} x {}", name, depth), env: None }));
        }
    }
    // ---- recursive MKMapProof (bincode): master proof, then sub-proofs [(key, MKMapProof)]
    if let Some((prefix, leaf)) = &pool.mkmap_nest {
        for d in if thorough { vec![1usize, 100, 10_000, 100_000, 1_000_000] } else { vec![1usize, 100, 10_000, 200_000] } {
            let mut b = Vec::with_capacity(prefix.len() * d + leaf.len());
            for _ in 0..d {
                b.extend_from_slice(prefix);
            }
            b.extend_from_slice(leaf);
            for e in [Entry::Bincode(1), Entry::KeyBytesHex(5), Entry::Other(7)] {
                fixed.push((e, Input { kind: "bincode-nesting".into(), bytes: b.clone(), expect: None, note: format!("sub-proof depth {}", d), env: None }));
            }
        }
    }
}
fn push_env(fixed: &mut Vec<(Entry, Input)>, ty: Ty, kind: &str, bytes: Vec<u8>, expect: Option<Value>, note: String, env: EnvInfo) {
    fixed.push((Entry::Stm(ty), Input { kind: kind.into(), bytes, expect, note, env: Some(env) }));
}
/// all the envelope cases (deterministic families + PRNG), for `AggregateSignature` and
/// `SingleSignatureWithRegisteredParty`
fn envelope_cases(rng: &mut Rng, pool: &Pool, thorough: bool, fixed: &mut Vec<(Entry, Input)>) {
    let near: Vec<u64> = {
        #[allow(unused_assignments)]
        let mut v = vec![u64::MAX, u64::MAX - 7, u64::MAX - 8, 1 << 63, 1 << 61, (1 << 61) - 1, (1 << 61) - 2, (1 << 61) - 7, (1 << 61) - 8, 1 << 40, 0, 1];
        v.extend([(u64::MAX - 55) / 8, (u64::MAX - 56) / 8, u64::MAX / 32, u64::MAX / 360, u64::MAX / 360 + 1]);
        if !thorough {
            // quick tier: the values on both sides of each overflow boundary
            v = vec![u64::MAX, u64::MAX - 7, 1 << 63, (1 << 61) - 1, (1 << 61) - 8, (u64::MAX - 55) / 8, u64::MAX / 360 + 1, 0];
        }
        v
    };
    for (ai, ap) in pool.aggr_parts.iter().enumerate() {
        let n = ap.sigs.len();
        // pure forms: the CBOR one is byte-for-byte what the real encoder writes (self-check of the writer)
        for c in [true, false] {
            let plan = Plan::uniform(n, c);
            let mut e = EnvInfo::default();
            let b = build_aggr(ap, &plan, &mut e);
            if c && b != ap.real_cbor {
                eprintln!("c05: the harness CBOR writer disagrees with AggregateSignature::to_bytes");
                std::process::exit(3);
            }
            push_env(fixed, Ty::Aggr, if c { "env-honest-cbor" } else { "env-honest-legacy" }, b, Some(ap.val.clone()), plan.describe(), e);
        }
        // one node in the other format, systematically; then random mixes
        let mut plans: Vec<Plan> = vec![];
        for base in [true, false] {
            let mut flip = |f: &dyn Fn(&mut Plan)| {
                let mut p = Plan::uniform(n, base);
                f(&mut p);
                plans.push(p);
            };
            flip(&|p| p.aggr_c = !base);
            flip(&|p| p.proof_c = !base);
            flip(&|p| p.bp_c = !base);
            for i in 0..n.min(2) {
                flip(&|p| p.sigreg_c[i] = !base);
                flip(&|p| p.sig_c[i] = !base);
                flip(&|p| p.reg_c[i] = !base);
            }
        }
        for _ in 0..(if thorough { 60 } else { 12 }) {
            plans.push(Plan::random(rng, n));
        }
        for plan in &plans {
            let mut e = EnvInfo::default();
            let b = build_aggr(ap, plan, &mut e);
            // a mix of formats is accepted by design ("supports both ... formats" at every level); the value is
            // compared with the model, the property oracle only asks for a clean return
            push_env(fixed, Ty::Aggr, "env-mixed", b, None, plan.describe(), e);
        }
        // the type tag of the envelope
        for t in [1u64, 2, 3, 23, 24, 255, 256, u64::MAX] {
            let mut plan = Plan::uniform(n, true);
            plan.sig_type = t;
            let mut e = EnvInfo::default();
            let b = build_aggr(ap, &plan, &mut e);
            push_env(fixed, Ty::Aggr, "env-type-tag", b, None, format!("signature_type {}", t), e);
        }
        // one inner node replaced, inside CBOR wrappers, legacy wrappers and random wrappers
        if ai > (if thorough { 1 } else { 0 }) {
            continue;
        }
        let sp = &ap.sigs[0];
        let reg_cbor = cb_env(&[("verification_key_bytes", CbV::Bytes(sp.vk.clone())), ("stake", CbV::U(sp.stake))]);
        let reg_enc = Enc { buf: sp.reg_legacy.clone(), fields: vec![] };
        let vk_enc = Enc { buf: sp.vk.clone(), fields: vec![] };
        let sr_legacy = {
            let mut e = Enc::default();
            e.len_field(sp.reg_legacy.len() as u64);
            e.raw(&sp.reg_legacy);
            e.len_field(sp.sig_legacy.buf.len() as u64);
            e.nested(sp.sig_legacy.clone());
            e
        };
        let sr_cbor = cb_env(&[("signature_bytes", CbV::Bytes(sp.sig_cbor.clone())), ("registration_entry_bytes", CbV::Bytes(reg_cbor.clone()))]);
        let proof_legacy = {
            let mut pl = Plan::uniform(n, false);
            pl.aggr_c = false;
            let mut e = EnvInfo::default();
            let b = build_aggr(ap, &pl, &mut e);
            let h = &pool.by_ty[Ty::Aggr as usize];
            let fields = h.iter().find(|x| x.legacy.buf == b).map(|x| x.legacy.fields.iter().filter(|f| **f >= 1).map(|f| f - 1).collect()).unwrap_or_default();
            Enc { buf: b[1..].to_vec(), fields }
        };
        let proof_cbor = {
            let mut e = EnvInfo::default();
            let b = build_aggr(ap, &Plan::uniform(n, true), &mut e);
            // proof bytes = the raw entry pushed last
            let _ = b;
            e.raw.last().cloned().unwrap_or_default()
        };
        let nodes: Vec<(Node, &Enc, &[u8], &[u8])> = vec![
            (Node::Sig(0), &sp.sig_legacy, &sp.sig_cbor, &sp.reg_legacy),
            (Node::Reg(0), &reg_enc, &reg_cbor, &sp.sig_legacy.buf),
            (Node::Vk(0), &vk_enc, &[], &sp.sig_legacy.buf),
            (Node::SigReg(0), &sr_legacy, &sr_cbor, &sp.sig_legacy.buf),
            (Node::Bp, &ap.bp_legacy, &ap.bp_cbor, &sp.sig_legacy.buf),
            (Node::Proof, &proof_legacy, &proof_cbor, &ap.bp_legacy.buf),
        ];
        for (node, leg, cb, other) in nodes {
            for (name, bytes) in inner_replacements(rng, leg, cb, other, &near) {
                let wrappers: Vec<Plan> = vec![Plan::uniform(n, true), Plan::uniform(n, false), Plan::random(rng, n)];
                for (wi, mut plan) in wrappers.into_iter().enumerate() {
                    if node == Node::Vk(0) {
                        plan.reg_c[0] = true;
                    }
                    // field sweeps are long: CBOR wrappers always, the others one time in three
                    let keep = wi == 0 || !name.starts_with("legacy-field") || rng.chance(1, 3);
                    if !keep {
                        continue;
                    }
                    plan.repl = Some((node, bytes.clone()));
                    let mut e = EnvInfo::default();
                    let b = build_aggr(ap, &plan, &mut e);
                    push_env(fixed, Ty::Aggr, "env-inner", b, None, format!("{} ; {}", plan.describe(), name), e);
                    // the same signature with its registered party on its own entry point
                    if matches!(node, Node::Sig(0) | Node::Reg(0) | Node::Vk(0)) && wi < 2 {
                        let mut e = EnvInfo::default();
                        let b = build_sigreg(sp, 0, &plan, &mut e);
                        push_env(fixed, Ty::SigReg, "env-inner", b, None, format!("{} ; {}", plan.describe(), name), e);
                    }
                }
            }
        }
        // CBOR shapes ciborium may or may not take for the envelope fields (no model opinion: clean return only)
        let deep: Vec<u8> = std::iter::repeat(0x81u8).take(if thorough { 400_000 } else { 100_000 }).chain([0u8]).collect();
        let proof = proof_cbor.clone();
        let shapes: Vec<(&str, Vec<(&str, CbV)>)> = vec![
            ("byte-string-field", vec![("signature_type", CbV::U(0)), ("proof_bytes", CbV::BStr(proof.clone()))]),
            ("missing-field", vec![("signature_type", CbV::U(0))]),
            ("duplicated-field", vec![("signature_type", CbV::U(0)), ("proof_bytes", CbV::Bytes(proof.clone())), ("proof_bytes", CbV::Bytes(vec![0; 9]))]),
            ("unknown-deep-field", vec![("signature_type", CbV::U(0)), ("x", CbV::Raw(deep.clone())), ("proof_bytes", CbV::Bytes(proof.clone()))]),
            ("element-256", vec![("signature_type", CbV::U(0)), ("proof_bytes", CbV::Arr(vec![CbV::U(1), CbV::U(256), CbV::U(0)]))]),
            ("negative-element", vec![("signature_type", CbV::U(0)), ("proof_bytes", CbV::Arr(vec![CbV::U(1), CbV::Neg(0)]))]),
            ("negative-tag", vec![("signature_type", CbV::Neg(0)), ("proof_bytes", CbV::Bytes(proof.clone()))]),
            ("indefinite-array", vec![("signature_type", CbV::U(0)), ("proof_bytes", CbV::Raw([vec![0x9f], proof.iter().flat_map(|x| { let mut o = vec![]; cb_head(&mut o, 0, *x as u64); o }).collect::<Vec<u8>>(), vec![0xff]].concat()))]),
            ("declared-length-2^63", vec![("signature_type", CbV::U(0)), ("proof_bytes", CbV::Raw(vec![0x9b, 0x80, 0, 0, 0, 0, 0, 0, 0, 1, 2, 3]))]),
            ("declared-length-2^64-1", vec![("signature_type", CbV::U(0)), ("proof_bytes", CbV::Raw(vec![0x9b, 0xff, 0xff, 0xff, 0xff, 0xff, 0xff, 0xff, 0xff, 1, 2, 3]))]),
            ("declared-bytes-2^40", vec![("signature_type", CbV::U(0)), ("proof_bytes", CbV::Raw(vec![0x5b, 0, 0, 1, 0, 0, 0, 0, 0, 1, 2, 3]))]),
            ("nested-array-proof", vec![("signature_type", CbV::U(0)), ("proof_bytes", CbV::Raw(deep.clone()))]),
        ];
        for (name, fields) in shapes {
            let b = cb_env(&fields);
            fixed.push((Entry::Stm(Ty::Aggr), Input { kind: "env-shape".into(), bytes: b.clone(), expect: None, note: name.into(), env: None }));
            fixed.push((Entry::KeyBytesHex(0), Input { kind: "env-shape".into(), bytes: b, expect: None, note: name.into(), env: None }));
        }
        // registration entry envelope: the stake in every CBOR integer shape
        for (name, st) in [("stake-max", CbV::U(u64::MAX)), ("stake-negative", CbV::Neg(5)), ("stake-bignum", CbV::Raw(vec![0xc2, 0x49, 1, 0, 0, 0, 0, 0, 0, 0, 0])), ("stake-float", CbV::Raw(vec![0xfb, 0x40, 0x59, 0, 0, 0, 0, 0, 0])), ("stake-bytes", CbV::BStr(vec![1, 2])), ("stake-text-deep", CbV::Raw(deep.clone()))] {
            let reg = cb_env(&[("verification_key_bytes", CbV::Bytes(sp.vk.clone())), ("stake", st)]);
            let b = cb_env(&[("signature_bytes", CbV::Bytes(sp.sig_cbor.clone())), ("registration_entry_bytes", CbV::Bytes(reg))]);
            fixed.push((Entry::Stm(Ty::SigReg), Input { kind: "env-shape".into(), bytes: b, expect: None, note: name.into(), env: None }));
        }
    }
}

// ------------------------------------------------------------------------------------------------
// worker / parent plumbing

struct Worker {
    next_id: u64,
    from: u64,
    only: Option<u64>,
    out: std::io::BufWriter<std::io::Stdout>,
}
impl Worker {
    fn wants(&mut self) -> Option<u64> {
        let id = self.next_id;
        self.next_id += 1;
        if id < self.from {
            return None;
        }
        match self.only {
            Some(o) if o != id => None,
            _ => Some(id),
        }
    }
    /// announce the case before running it (so that the parent can attribute an abort)
    fn begin(&mut self, id: u64, kind: &str, desc: &Value, model: &Option<String>, key: &str) {
        let pre = json!({"id": id, "kind": kind, "desc": desc, "model": model, "key": key});
        writeln!(self.out, "B {}", pre).unwrap();
        self.out.flush().unwrap();
        WATCH_CASE.store(id + 1, Relaxed);
        WATCH_START.store(now_ms(), Relaxed);
    }
    fn done(&mut self, c: Case) {
        WATCH_CASE.store(0, Relaxed);
        writeln!(self.out, "C {}", serde_json::to_string(&c).unwrap()).unwrap();
        self.out.flush().unwrap();
    }
}
static WATCH_CASE: AtomicU64 = AtomicU64::new(0);
static WATCH_START: AtomicU64 = AtomicU64::new(0);
fn now_ms() -> u64 {
    std::time::SystemTime::now().duration_since(std::time::UNIX_EPOCH).map(|d| d.as_millis() as u64).unwrap_or(0)
}

fn fnv(b: &[u8]) -> u64 {
    let mut h = 0xcbf29ce484222325u64;
    for x in b {
        h ^= *x as u64;
        h = h.wrapping_mul(0x100000001b3);
    }
    h
}

fn bound(len: usize) -> usize {
    64 * len + (1 << 20)
}

/// the hand-written legacy decoders (no third-party decoder involved): their pre-allocations are proved
/// to be <= 45*len (C05_concatenation_proof_alloc, C05_merkle_tree_alloc); anyhow's error objects and
/// Vec growth stay below 4 KiB + 3*len
fn bound_legacy(len: usize) -> usize {
    48 * len + 4096
}
fn judge(r: &Run, len: usize, expect: &Option<Value>, legacy_only: bool) -> Result<(), String> {
    if r.class == 2 {
        return Err("decoder panicked".into());
    }
    let bound = if legacy_only { bound_legacy(len) } else { bound(len) };
    if r.max_req > bound {
        return Err(format!("single allocation request of {} bytes for an input of {} bytes (bound {})", r.max_req, len, bound));
    }
    if let Some(v) = expect {
        if r.class != 0 {
            return Err("encoding of an honest value was rejected".into());
        }
        if r.val.as_ref() != Some(v) {
            return Err("encoding of an honest value decoded to a different value".into());
        }
    }
    Ok(())
}

fn parent(args: &hc::Args) {
    let exe = std::env::current_exe().expect("current_exe");
    let mut out = std::io::BufWriter::new(std::fs::File::create(&args.out).expect("create out file"));
    let mut from = 0u64;
    let mut restarts = 0;
    loop {
        let mut cmd = std::process::Command::new(&exe);
        cmd.arg("--worker").arg("--from").arg(from.to_string()).arg("--seed").arg(args.seed.to_string());
        cmd.arg("--tier").arg(if args.thorough { "thorough" } else { "quick" });
        if let Some(o) = args.only {
            cmd.arg("--only").arg(o.to_string());
        }
        for e in &args.extra {
            cmd.arg(e);
        }
        cmd.stdout(std::process::Stdio::piped());
        let mut child = cmd.spawn().expect("spawn worker");
        let rd = std::io::BufReader::new(child.stdout.take().unwrap());
        let mut pending: Option<Value> = None;
        for line in rd.lines() {
            let Ok(line) = line else { break };
            if let Some(rest) = line.strip_prefix("B ") {
                pending = serde_json::from_str(rest).ok();
            } else if let Some(rest) = line.strip_prefix("C ") {
                out.write_all(rest.as_bytes()).unwrap();
                out.write_all(b"\n").unwrap();
                pending = None;
            }
        }
        let status = child.wait().expect("wait worker");
        if status.success() && pending.is_none() {
            break;
        }
        let Some(p) = pending else {
            eprintln!("c05: worker failed outside a case: {:?}", status);
            std::process::exit(3);
        };
        // the worker died while running case p: that is a property failure of that case
        let id = p["id"].as_u64().unwrap_or(0);
        let c = Case {
            id,
            kind: p["kind"].as_str().unwrap_or("").to_string(),
            desc: p["desc"].clone(),
            model: p["model"].as_str().map(|s| s.replace("@IMPL@", &coq::ores_panic())),
            impl_obs: coq::ores_panic(),
            holds: Some(false),
            why: Some(format!("the process died while decoding ({:?}): abort / allocation failure / stack overflow / time-out", status)),
            known: None,
            nontrivial: true,
            key: p["key"].as_str().unwrap_or("").to_string(),
        };
        serde_json::to_writer(&mut out, &c).unwrap();
        out.write_all(b"\n").unwrap();
        from = id + 1;
        restarts += 1;
        if restarts > 200 {
            eprintln!("c05: more than 200 worker deaths, giving up");
            break;
        }
    }
    out.flush().unwrap();
}

// ------------------------------------------------------------------------------------------------

fn main() {
    let args = hc::parse_args();
    if !args.extra.iter().any(|a| a == "--worker") {
        return parent(&args);
    }
    let from: u64 = args.extra.iter().position(|a| a == "--from").and_then(|i| args.extra.get(i + 1)).and_then(|s| s.parse().ok()).unwrap_or(0);
    let wrapping = args.extra.iter().any(|a| a == "--wrapping");
    // watchdog: a case that runs for more than 60 s is a hang
    std::thread::spawn(|| loop {
        std::thread::sleep(std::time::Duration::from_millis(500));
        if WATCH_CASE.load(Relaxed) != 0 && now_ms().saturating_sub(WATCH_START.load(Relaxed)) > 60_000 {
            eprintln!("c05: case {} exceeded 60 s", WATCH_CASE.load(Relaxed) - 1);
            std::process::abort();
        }
    });
    if std::env::var("C05_DEBUG").is_err() { std::panic::set_hook(Box::new(|_| {})); }
    if let Ok(w) = std::env::var("VERIF_WORK") {
        std::env::set_var("TMPDIR", w);
    }
    let mut rng = Rng::new(args.seed);
    let pool = build_pool(&mut rng, args.thorough);
    let mut w = Worker { next_id: 0, from, only: args.only, out: std::io::BufWriter::new(std::io::stdout()) };

    // the table of entry points
    let mut entries: Vec<Entry> = vec![];
    for ty in MODELLED {
        entries.push(Entry::Stm(ty));
        entries.push(Entry::Stm(ty)); // the modelled decoders get a double share
        if common_decode(ty, &[]).is_some() {
            entries.push(Entry::Common(ty));
            entries.push(Entry::CommonHex(ty));
        }
        entries.push(Entry::JsonStm(ty));
    }
    for k in 0..N_KEYS {
        if k != 5 {
            entries.push(Entry::KeyStr(k));
            entries.push(Entry::KeySerde(k));
        }
        entries.push(Entry::KeyBytesHex(k));
        entries.push(Entry::KeyJsonHex(k));
    }
    entries.extend([Entry::Bincode(0), Entry::Bincode(1), Entry::Bincode(0), Entry::Bincode(1)]);
    for k in 0..8 {
        entries.push(Entry::Other(k));
    }
    for k in 0..4 {
        entries.push(Entry::JsonMsg(k));
    }
    entries.extend([Entry::Hex, Entry::Hex, Entry::Hex]);

    // fixed witnesses first (DESIGN section 9): counts 2^64-1 and 2^40 in the aggregate-signature envelope, etc.
    let mut fixed: Vec<(Entry, Input)> = vec![];
    for count in [u64::MAX, 1 << 40, 1 << 32, 1 << 61, u64::MAX / 360 + 1, 3] {
        for tail in [16usize, 0, 200] {
            let mut b = vec![0u8];
            b.extend_from_slice(&count.to_be_bytes());
            b.extend(std::iter::repeat(0u8).take(tail));
            for e in [Entry::Stm(Ty::Aggr), Entry::Common(Ty::Aggr), Entry::KeyBytesHex(0), Entry::KeyStr(0)] {
                fixed.push((e, Input { kind: "witness-count".into(), bytes: b.clone(), expect: None, note: format!("signature count {}", count), env: None }));
            }
        }
    }
    for size in [u64::MAX, u64::MAX - 7, u64::MAX - 8, 1 << 63, 8, 0] {
        // SingleSignatureWithRegisteredParty: first size field; and nested in a proof with one signature
        let mut b = size.to_be_bytes().to_vec();
        b.extend(std::iter::repeat(0u8).take(24));
        fixed.push((Entry::Stm(Ty::SigReg), Input { kind: "witness-size".into(), bytes: b.clone(), expect: None, note: format!("reg party size {}", size), env: None }));
        let mut p = vec![0u8];
        p.extend_from_slice(&1u64.to_be_bytes());
        p.extend_from_slice(&size.to_be_bytes());
        p.extend(std::iter::repeat(0u8).take(40));
        fixed.push((Entry::Stm(Ty::Aggr), Input { kind: "witness-size".into(), bytes: p, expect: None, note: format!("first signature size {}", size), env: None }));
        if let Some(h) = pool.by_ty[Ty::SigReg as usize].first() {
            // honest registration entry followed by an inflated signature size
            let mut q = h.legacy.buf.clone();
            let f = h.legacy.fields[1];
            q[f..f + 8].copy_from_slice(&size.to_be_bytes());
            fixed.push((Entry::Stm(Ty::SigReg), Input { kind: "witness-size".into(), bytes: q, expect: None, note: format!("signature size {}", size), env: None }));
        }
    }
    for n in [u64::MAX, 1 << 63, (1 << 63) + 1, 1 << 40, 1 << 62, 0, 1, 2, 3] {
        let mut b = n.to_be_bytes().to_vec();
        b.extend(std::iter::repeat(7u8).take(64));
        fixed.push((Entry::Stm(Ty::MTree), Input { kind: "witness-count".into(), bytes: b, expect: None, note: format!("leaf count {}", n), env: None }));
    }

    // offset-arithmetic boundaries, swept deterministically: a decoder that computes
    // `base + count * element_size + tail` from an untrusted u64 overflows only for the few counts next to
    // 2^64 / element_size; every u64 field of every legacy layout gets every such value
    // (element sizes of the formats: 1, 2, 4, 8 (u64), 16, 32 (hash), 40, 48 (sigma), 56, 64, 96 (vk),
    // 104, 192 (vk+pop), 360; base + tail up to 128)
    let mut sweep: Vec<u64> = vec![];
    for es in [1u64, 2, 4, 8, 16, 32, 40, 48, 56, 64, 96, 104, 192, 360] {
        for t in 0..=128u64 {
            sweep.push((u64::MAX - t) / es);
        }
    }
    sweep.sort_unstable();
    sweep.dedup();
    for ty in MODELLED {
        if let Some(h) = pool.by_ty[ty as usize].iter().max_by_key(|h| h.legacy.fields.len()) {
            for &f in &h.legacy.fields {
                for &v in &sweep {
                    let mut b = h.legacy.buf.clone();
                    b[f..f + 8].copy_from_slice(&v.to_be_bytes());
                    fixed.push((Entry::Stm(ty), Input { kind: "boundary-sweep".into(), bytes: b, expect: None, note: format!("u64 field at {} := {}", f, v), env: None }));
                }
            }
        }
    }

    envelope_cases(&mut rng, &pool, args.thorough, &mut fixed);
    extra_families(&pool, args.thorough, &mut fixed);

    let n_rand: u64 = if args.thorough { 400_000 } else { 20_000 };
    let total = fixed.len() as u64 + n_rand;
    let mut fixed_it = fixed.into_iter();
    // the driver compares at most max_model_cases_<tier> cases with the model and thins by stride when there
    // are more; the harness thins the two big families itself (deterministically) so that every envelope and
    // witness case is compared
    let (sweep_every, random_every): (u64, u64) = if args.thorough { (2, 24) } else { (8, 3) };
    let (mut sweep_seen, mut random_seen) = (0u64, 0u64);
    for _ in 0..total {
        // ---- choose entry and input (all randomness is consumed whether or not the case is wanted)
        let mut is_fixed = true;
        let (entry, input) = match fixed_it.next() {
            Some(x) => x,
            None => {
                is_fixed = false;
                let e = *rng.pick(&entries);
                let inp = match e {
                    Entry::Stm(ty) | Entry::Common(ty) | Entry::CommonHex(ty) => gen_for_ty(&mut rng, &pool, ty),
                    Entry::KeyStr(k) | Entry::KeySerde(k) | Entry::KeyBytesHex(k) | Entry::KeyJsonHex(k) => match key_ty(k) {
                        Some(ty) => gen_for_ty(&mut rng, &pool, ty),
                        None => gen_third_party(&mut rng, &pool, k),
                    },
                    Entry::Bincode(k) => gen_third_party(&mut rng, &pool, 4 + k),
                    Entry::Other(k) => gen_third_party(&mut rng, &pool, [6u8, 7, 8, 9, 10, 11, 4, 5][k as usize]),
                    Entry::JsonStm(ty) => {
                        let hs = &pool.by_ty[ty as usize];
                        if hs.is_empty() {
                            Input { kind: "random".into(), bytes: random_bytes(&mut rng), expect: None, note: String::new(), env: None }
                        } else {
                            let h = rng.pick(hs).clone();
                            if rng.chance(1, 4) {
                                Input { kind: "honest-json".into(), bytes: h.json.clone().into_bytes(), expect: Some(h.val.clone()), note: String::new(), env: None }
                            } else {
                                let (s, note) = mutate_json(&mut rng, &h.json);
                                Input { kind: "json-mutated".into(), bytes: s.into_bytes(), expect: None, note, env: None }
                            }
                        }
                    }
                    Entry::JsonMsg(k) => {
                        let doc = &pool.messages.iter().find(|(i, _)| *i == k as usize).unwrap().1;
                        if rng.chance(1, 5) {
                            Input { kind: "honest-json".into(), bytes: doc.clone().into_bytes(), expect: None, note: String::new(), env: None }
                        } else {
                            let (s, note) = mutate_json(&mut rng, doc);
                            Input { kind: "json-mutated".into(), bytes: s.into_bytes(), expect: None, note, env: None }
                        }
                    }
                    Entry::Hex => {
                        let n = rng.below(40) as usize;
                        let alphabet: &[u8] = if rng.chance(2, 3) { b"0123456789abcdefABCDEF" } else { b"0123456789abcdefABCDEFgG xz/:@`\n\x00\x7f\xc3\xa9" };
                        let s: Vec<u8> = (0..n).map(|_| *rng.pick(alphabet)).collect();
                        Input { kind: "hex-string".into(), bytes: s, expect: None, note: String::new(), env: None }
                    }
                };
                (e, inp)
            }
        };
        // ---- textual form for the string entry points
        let mut kind = input.kind.clone();
        let mut expect = input.expect.clone();
        let text: String = match entry {
            Entry::CommonHex(_) | Entry::KeyBytesHex(_) => {
                let corrupt = rng.chance(1, 12);
                let (s, c) = hex_wrap(&mut rng, &input.bytes, corrupt);
                if !c.is_empty() {
                    kind = format!("{}+{}", kind, c);
                    if c != "uppercase" {
                        expect = None;
                    }
                }
                s
            }
            Entry::KeyJsonHex(k) | Entry::KeyStr(k) | Entry::KeySerde(k) => {
                // these accept JSON-hex (and bytes-hex as fallback / first choice)
                let as_json = matches!(entry, Entry::KeyJsonHex(_)) || rng.coin();
                let honest_json: Option<(String, Option<Value>)> = match key_ty(k) {
                    Some(ty) if !pool.by_ty[ty as usize].is_empty() => {
                        let h = rng.pick(&pool.by_ty[ty as usize]);
                        Some((h.json.clone(), Some(h.val.clone())))
                    }
                    _ => third_party_json(&mut rng, &pool, k).map(|j| (j, None)),
                };
                let s = if as_json && honest_json.is_some() {
                    let (j, v) = honest_json.unwrap();
                    if rng.chance(1, 3) {
                        kind = "honest-jsonhex".into();
                        // canonical value of Parameters/Initializer is not plain JSON: not compared
                        expect = v;
                        hex::encode(j)
                    } else {
                        let (m, note) = mutate_json(&mut rng, &j);
                        kind = format!("jsonhex-{}", note.split(' ').next().unwrap_or(""));
                        expect = None;
                        hex::encode(m)
                    }
                } else {
                    if matches!(entry, Entry::KeyJsonHex(_)) {
                        expect = None;
                    }
                    hex::encode(&input.bytes)
                };
                if matches!(entry, Entry::KeySerde(_)) {
                    format!("\"{}\"", s)
                } else {
                    s
                }
            }
            Entry::JsonMsg(_) | Entry::Hex => String::from_utf8_lossy(&input.bytes).into_owned(),
            _ => String::new(),
        };
        // (counted whether or not the case is wanted: replays see the same thinning)
        let thinned = if input.kind == "boundary-sweep" {
            sweep_seen += 1;
            (sweep_seen - 1) % sweep_every != 0
        } else if !is_fixed && matches!(entry, Entry::Stm(_) | Entry::Hex) {
            random_seen += 1;
            (random_seen - 1) % random_every != 0
        } else {
            false
        };
        let Some(id) = w.wants() else { continue };

        let uses_text = !text.is_empty() || matches!(entry, Entry::JsonMsg(_) | Entry::Hex | Entry::CommonHex(_) | Entry::KeyBytesHex(_) | Entry::KeyJsonHex(_) | Entry::KeyStr(_) | Entry::KeySerde(_));
        let len = if uses_text { text.len() } else { input.bytes.len() };
        let desc = if len > 300_000 {
            // the whole input is rebuilt by a replay (--only id); the note says how it is made
            let head = if uses_text { text.chars().take(400).collect::<String>() } else { hex::encode(&input.bytes[..200]) };
            json!({"entry": format!("{:?}", entry), "input_head": head, "input_len": len, "note": input.note})
        } else if uses_text {
            json!({"entry": format!("{:?}", entry), "text": text, "note": input.note})
        } else {
            json!({"entry": format!("{:?}", entry), "bytes_hex": hex::encode(&input.bytes), "note": input.note})
        };
        let key = format!("{:?}/{:016x}", entry, fnv(if uses_text { text.as_bytes() } else { &input.bytes }));
        // model term (placeholder for the implementation's observation until it is known)
        let modelled = match entry {
            Entry::Stm(_) => (input.bytes.first() != Some(&1) || input.env.is_some()) && input.bytes.len() <= 20_000,
            Entry::Hex => text.is_ascii(),
            _ => false,
        };
        let modelled = modelled && !thinned;
        let model_pre = match entry {
            Entry::Stm(ty) if modelled => Some(model_term(&pool, ty, &input.bytes, "@IMPL@", wrapping, input.env.as_ref())),
            Entry::Hex if modelled => Some(format!("run_hex {}", coq::list(&text.bytes().map(|x| x.to_string()).collect::<Vec<_>>()))),
            _ => None,
        };
        w.begin(id, &format!("{}/{}", entry_class(entry), kind), &desc, &model_pre, &key);
        let r = exec(entry, &input.bytes, &text);
        let legacy_only = matches!(entry, Entry::Stm(_)) && input.env.is_none() && input.bytes.first() != Some(&1) && pure_legacy_kind(&input.kind);
        let verdict = judge(&r, len, &expect, legacy_only);
        let impl_obs = match entry {
            Entry::Stm(ty) => obs_run(ty, &r),
            Entry::Hex => match r.class {
                0 => coq::ores_ok(coq::oln(&nums(r.val.as_ref().unwrap()))),
                1 => coq::ores_err(),
                _ => coq::ores_panic(),
            },
            _ => coq::ol(&[coq::oz(r.class as i128)]),
        };
        let model = model_pre.map(|m| m.replace("@IMPL@", &impl_obs));
        let mut desc = desc;
        desc["max_alloc_request"] = json!(r.max_req);
        desc["total_alloc"] = json!(r.total);
        desc["outcome"] = json!(["ok", "err", "panic"][r.class as usize]);
        w.done(Case {
            id,
            kind: format!("{}/{}", entry_class(entry), kind),
            desc,
            model,
            impl_obs,
            holds: Some(verdict.is_ok()),
            why: verdict.err(),
            known: None,
            nontrivial: len >= 8,
            key,
        });
    }
    w.out.flush().unwrap();
}

/// a legacy layout can hold CBOR-encoded inner values (first byte 1 of a nested byte string), which brings
/// ciborium's own buffers in: only the deterministic families made from pure legacy layouts get the tight bound
fn pure_legacy_kind(kind: &str) -> bool {
    kind == "boundary-sweep" || kind == "large-input" || kind.starts_with("witness") || kind == "honest-legacy" || kind == "legacy-truncate" || kind == "legacy-extend"
}
fn entry_class(e: Entry) -> &'static str {
    match e {
        Entry::Stm(_) => "stm-bytes",
        Entry::Common(_) => "common-bytes",
        Entry::CommonHex(_) => "common-hex",
        Entry::KeyStr(_) => "key-str",
        Entry::KeySerde(_) => "key-serde",
        Entry::KeyBytesHex(_) => "key-bytes-hex",
        Entry::KeyJsonHex(_) => "key-json-hex",
        Entry::Bincode(_) => "bincode",
        Entry::Other(_) => "third-party-bytes",
        Entry::JsonStm(_) => "json",
        Entry::JsonMsg(_) => "json-message",
        Entry::Hex => "hex",
    }
}

/// inputs for decoders that are entirely third-party (bincode / CBOR / fixed-size): honest encodings
/// from the pool where available, mutated like the others.   k: ProtocolKey instantiation number
fn gen_third_party(rng: &mut Rng, pool: &Pool, k: u8) -> Input {
    let honest: Option<&Vec<u8>> = match k {
        4 if !pool.mkproof.is_empty() => Some(&rng.pick(&pool.mkproof).0),
        5 if !pool.mkmapproof.is_empty() => Some(&rng.pick(&pool.mkmapproof).0),
        6 if !pool.opcert.is_empty() => Some(&rng.pick(&pool.opcert).0),
        _ => None,
    };
    match honest {
        Some(h) if rng.chance(4, 5) => {
            if rng.chance(1, 5) {
                Input { kind: "honest-bytes".into(), bytes: h.clone(), expect: None, note: String::new(), env: None }
            } else if (k == 4 || k == 5) && rng.chance(1, 3) && h.len() >= 2 {
                // bincode's variable-length integers: 0xfb..0xfe announce a little-endian u16 / u32 / u64 / u128
                let mut b = h.clone();
                let i = rng.below(b.len() as u64) as usize;
                let v = *rng.pick(&SPECIAL);
                let (tag, n) = *rng.pick(&[(0xfbu8, 2usize), (0xfc, 4), (0xfd, 8), (0xfd, 8), (0xfe, 16)]);
                let mut le = (v as u128).to_le_bytes().to_vec();
                le.truncate(n);
                b.truncate(i);
                b.push(tag);
                b.extend_from_slice(&le);
                b.extend_from_slice(&h[(i + 1).min(h.len())..]);
                Input { kind: "bytes-bincode-inflate".into(), bytes: b, expect: None, note: format!("varint at {} := tag {:#x} value {}", i, tag, v), env: None }
            } else {
                let (kd, b, note) = mutate_bytes(rng, h, &[]);
                Input { kind: format!("bytes-{}", kd), bytes: b, expect: None, note, env: None }
            }
        }
        _ => {
            // fixed-size third-party values: right and wrong sizes
            let n = *rng.pick(&[0usize, 31, 32, 33, 63, 64, 65, 447, 448, 449]);
            let b = if rng.coin() { rng.bytes(n) } else { random_bytes(rng) };
            Input { kind: "random".into(), bytes: b, expect: None, note: String::new(), env: None }
        }
    }
}
fn third_party_json(rng: &mut Rng, pool: &Pool, k: u8) -> Option<String> {
    match k {
        4 if !pool.mkproof.is_empty() => Some(rng.pick(&pool.mkproof).1.clone()),
        5 if !pool.mkmapproof.is_empty() => Some(rng.pick(&pool.mkmapproof).1.clone()),
        6 if !pool.opcert.is_empty() => Some(rng.pick(&pool.opcert).1.clone()),
        _ => None,
    }
}
