//! C04 correspondence harness: certificates are tamper-evident and survive the wire unchanged.
//!
//! Real `Certificate` / `CertificateMetadata` / `ProtocolParameters` / `ProtocolMessage` values are
//! built from a structural description (`MCert`); the same description is printed as a term of the
//! Coq model (C04/Model.v).  Hash-valued outputs are compared by *equality pattern* over a batch
//! (one base value and its variants).  The `holds` oracle judges the property from provenance:
//! a variant that differs from the base in exactly one field (as the hash sees it) must hash
//! differently; the JSON round trip must preserve hash, signed message and verification outcome.
use chrono::{DateTime, Utc};
use hc::{coq, Case, Rng, Sink};
use mithril_common::certificate_chain::{
    CertificateRetriever, CertificateRetrieverError, CertificateVerifier, MithrilCertificateVerifier,
};
use mithril_common::entities::{
    BlockNumber, BlockNumberOffset, CardanoDbBeacon, Certificate, CertificateMetadata,
    CertificateSignature, Epoch, ProtocolMessage, ProtocolMessagePartKey as K, ProtocolParameters,
    SignedEntityType, StakeDistributionParty,
};
use mithril_common::messages::CertificateMessage;
use mithril_common::test::builder::CertificateChainBuilder;
use mithril_common::test::double::fake_keys;
use std::collections::{BTreeMap, HashMap};
use std::sync::Arc;

const KNOWN_SET: &str = "C04-feed-hash-entity-type-collision";

/// ProtocolMessagePartKey in declaration order (index = position in Gen.Consts.PM_KEYS).
const KEYS: [K; 12] = [
    K::SnapshotDigest,
    K::CardanoTransactionsMerkleRoot,
    K::CardanoBlocksTransactionsMerkleRoot,
    K::NextAggregateVerificationKey,
    K::NextProtocolParameters,
    K::CurrentEpoch,
    K::LatestBlockNumber,
    K::CardanoBlocksTransactionsBlockNumberOffset,
    K::CardanoStakeDistributionEpoch,
    K::CardanoStakeDistributionMerkleRoot,
    K::CardanoDatabaseMerkleRoot,
    K::NextSnarkAggregateVerificationKey,
];
#[allow(dead_code)]
fn key_index(k: &K) -> usize {
    KEYS.iter().position(|x| x == k).expect("unknown ProtocolMessagePartKey: extend KEYS")
}

#[derive(Clone, Debug, PartialEq)]
enum Set {
    Msd(u64),
    Csd(u64),
    Cdb(u64, u64),
    Ctx(u64, u64),
    Cbtx(u64, u64, u64),
}
impl Set {
    fn real(&self) -> SignedEntityType {
        match *self {
            Set::Msd(e) => SignedEntityType::MithrilStakeDistribution(Epoch(e)),
            Set::Csd(e) => SignedEntityType::CardanoStakeDistribution(Epoch(e)),
            Set::Cdb(e, i) => SignedEntityType::CardanoDatabase(CardanoDbBeacon::new(e, i)),
            Set::Ctx(e, b) => SignedEntityType::CardanoTransactions(Epoch(e), BlockNumber(b)),
            Set::Cbtx(e, b, o) => {
                SignedEntityType::CardanoBlocksTransactions(Epoch(e), BlockNumber(b), BlockNumberOffset(o))
            }
        }
    }
    fn coq(&self) -> String {
        match *self {
            Set::Msd(e) => format!("(MSD {})", e),
            Set::Csd(e) => format!("(CSD {})", e),
            Set::Cdb(e, i) => format!("(CDb {} {})", e, i),
            Set::Ctx(e, b) => format!("(CTx {} {})", e, b),
            Set::Cbtx(e, b, o) => format!("(CBTx {} {} {})", e, b, o),
        }
    }
    /// same numbers under the other variant of the known collision class
    fn twin(&self) -> Option<Set> {
        match *self {
            Set::Msd(e) => Some(Set::Csd(e)),
            Set::Csd(e) => Some(Set::Msd(e)),
            Set::Cdb(e, i) => Some(Set::Ctx(e, i)),
            Set::Ctx(e, b) => Some(Set::Cdb(e, b)),
            Set::Cbtx(..) => None,
        }
    }
}

#[derive(Clone, Debug, PartialEq)]
enum Sig {
    Genesis(usize),
    Multi(Set, usize),
}
impl Sig {
    fn coq(&self) -> String {
        match self {
            Sig::Genesis(i) => format!("(GenesisSig (Junk {}))", i),
            Sig::Multi(t, i) => format!("(MultiSig {} (MS {}))", t.coq(), i),
        }
    }
}

/// timestamp = (seconds, nanoseconds) since the Unix epoch
type Ts = (i64, u32);
fn ts_real(t: Ts) -> DateTime<Utc> {
    DateTime::from_timestamp(t.0, t.1).expect("timestamp in chrono range")
}
fn ts_total(t: Ts) -> i128 {
    t.0 as i128 * 1_000_000_000 + t.1 as i128
}
fn ts_in_i64(t: Ts) -> bool {
    let n = ts_total(t);
    n >= i64::MIN as i128 && n <= i64::MAX as i128
}

#[derive(Clone, Debug)]
struct MMeta {
    network: String,
    version: String,
    k: u64,
    m: u64,
    phi: f64,
    init: Ts,
    sealed: Ts,
    signers: Vec<(String, u64)>,
}
#[derive(Clone, Debug)]
struct MCert {
    hash: String,
    prev: String,
    epoch: u64,
    meta: MMeta,
    pm: BTreeMap<usize, String>,
    signed: String,
    avk: usize,
    sig: Sig,
}

#[derive(Clone, Debug)]
enum Mut {
    Prev(String),
    Epoch(u64),
    Network(String),
    Version(String),
    K(u64),
    M(u64),
    Phi(f64),
    Init(Ts),
    Sealed(Ts),
    Signers(Vec<(String, u64)>),
    Pm(BTreeMap<usize, String>),
    Signed(String),
    Avk(usize),
    Sig(Sig),
}

fn lit(s: &str) -> String {
    format!("(BLit {})", coq::bytes(s.as_bytes()))
}
fn dyadic(x: f64) -> Option<(i128, i128)> {
    if !x.is_finite() {
        return None;
    }
    let bits = x.to_bits();
    let sign: i128 = if bits >> 63 == 1 { -1 } else { 1 };
    let e = ((bits >> 52) & 0x7ff) as i128;
    let frac = (bits & ((1u64 << 52) - 1)) as i128;
    Some(if e == 0 { (sign * frac, -1074) } else { (sign * (frac | (1 << 52)), e - 1075) })
}
fn phi_coq(x: f64) -> String {
    let (m, e) = dyadic(x).expect("finite phi_f");
    format!("({}, {})%Z", m, e)
}
fn signers_coq(s: &[(String, u64)]) -> String {
    coq::list(&s.iter().map(|(p, st)| format!("({}, {})", coq::bytes(p.as_bytes()), st)).collect::<Vec<_>>())
}
fn pm_coq(pm: &BTreeMap<usize, String>) -> String {
    coq::list(&pm.iter().map(|(k, v)| format!("({}%nat, {})", k, lit(v))).collect::<Vec<_>>())
}
impl MMeta {
    fn coq(&self) -> String {
        format!(
            "(mk_meta {} {} {} {} {} ({})%Z ({})%Z {})",
            coq::bytes(self.network.as_bytes()),
            coq::bytes(self.version.as_bytes()),
            self.k,
            self.m,
            phi_coq(self.phi),
            ts_total(self.init),
            ts_total(self.sealed),
            signers_coq(&self.signers)
        )
    }
    fn real(&self) -> CertificateMetadata {
        CertificateMetadata::new(
            self.network.clone(),
            self.version.clone(),
            ProtocolParameters::new(self.k, self.m, self.phi),
            ts_real(self.init),
            ts_real(self.sealed),
            self.signers
                .iter()
                .map(|(p, s)| StakeDistributionParty { party_id: p.clone(), stake: *s })
                .collect(),
        )
    }
}
fn pm_real(pm: &BTreeMap<usize, String>) -> ProtocolMessage {
    let mut m = ProtocolMessage::new();
    for (k, v) in pm {
        m.set_message_part(KEYS[*k], v.clone());
    }
    m
}
impl MCert {
    fn coq(&self) -> String {
        format!(
            "(mk_cert {} {} {} {} {} {} (BLit [{}]) {})",
            lit(&self.hash),
            lit(&self.prev),
            self.epoch,
            self.meta.coq(),
            pm_coq(&self.pm),
            lit(&self.signed),
            self.avk,
            self.sig.coq()
        )
    }
    fn real(&self) -> Certificate {
        let signature = match &self.sig {
            Sig::Genesis(i) => {
                CertificateSignature::GenesisSignature(fake_keys::genesis_signature()[*i].try_into().unwrap())
            }
            Sig::Multi(t, i) => {
                CertificateSignature::MultiSignature(t.real(), fake_keys::multi_signature()[*i].try_into().unwrap())
            }
        };
        Certificate {
            hash: self.hash.clone(),
            previous_hash: self.prev.clone(),
            epoch: Epoch(self.epoch),
            metadata: self.meta.real(),
            protocol_message: pm_real(&self.pm),
            signed_message: self.signed.clone(),
            aggregate_verification_key: fake_keys::aggregate_verification_key_for_concatenation()[self.avk]
                .try_into()
                .unwrap(),
            ancillary_prover_data: None,
            ancillary_verifier_data: None,
            signature,
        }
    }
    fn apply(&self, m: &Mut) -> MCert {
        let mut c = self.clone();
        match m.clone() {
            Mut::Prev(s) => c.prev = s,
            Mut::Epoch(e) => c.epoch = e,
            Mut::Network(s) => c.meta.network = s,
            Mut::Version(s) => c.meta.version = s,
            Mut::K(n) => c.meta.k = n,
            Mut::M(n) => c.meta.m = n,
            Mut::Phi(p) => c.meta.phi = p,
            Mut::Init(t) => c.meta.init = t,
            Mut::Sealed(t) => c.meta.sealed = t,
            Mut::Signers(s) => c.meta.signers = s,
            Mut::Pm(p) => c.pm = p,
            Mut::Signed(s) => c.signed = s,
            Mut::Avk(a) => c.avk = a,
            Mut::Sig(s) => c.sig = s,
        }
        c
    }
}
impl Mut {
    fn coq(&self) -> String {
        match self {
            Mut::Prev(s) => format!("MPrev {}", lit(s)),
            Mut::Epoch(e) => format!("MEpoch {}", e),
            Mut::Network(s) => format!("MNetwork {}", coq::bytes(s.as_bytes())),
            Mut::Version(s) => format!("MVersion {}", coq::bytes(s.as_bytes())),
            Mut::K(n) => format!("MK {}", n),
            Mut::M(n) => format!("MM {}", n),
            Mut::Phi(p) => format!("MPhi {}", phi_coq(*p)),
            Mut::Init(t) => format!("MInit ({})%Z", ts_total(*t)),
            Mut::Sealed(t) => format!("MSealed ({})%Z", ts_total(*t)),
            Mut::Signers(s) => format!("MSignersOf {}", signers_coq(s)),
            Mut::Pm(p) => format!("MPmOf {}", pm_coq(p)),
            Mut::Signed(s) => format!("MSigned {}", lit(s)),
            Mut::Avk(a) => format!("MAvk (BLit [{}])", a),
            Mut::Sig(s) => format!("MSig {}", s.coq()),
        }
    }
    fn name(&self) -> &'static str {
        match self {
            Mut::Prev(_) => "previous_hash",
            Mut::Epoch(_) => "epoch",
            Mut::Network(_) => "network",
            Mut::Version(_) => "protocol_version",
            Mut::K(_) => "k",
            Mut::M(_) => "m",
            Mut::Phi(_) => "phi_f",
            Mut::Init(_) => "initiated_at",
            Mut::Sealed(_) => "sealed_at",
            Mut::Signers(_) => "signers",
            Mut::Pm(_) => "protocol_message",
            Mut::Signed(_) => "signed_message",
            Mut::Avk(_) => "aggregate_verification_key",
            Mut::Sig(_) => "signature",
        }
    }
}

/// What the property says about a variant relative to the base.
#[derive(Clone, Copy, Debug, PartialEq)]
enum Expect {
    /// exactly one field differs (as the hash sees it): the hash MUST differ
    Differ,
    /// nothing differs as the hash sees it: the hash must be the same (determinism)
    Same,
    /// outside the property's quantifier (several fields edited, unrepresentable timestamps…)
    Unjudged,
    /// the known class: signed entity types sharing beacon numbers
    KnownCollision,
}

// ---------------------------------------------------------------- generators

fn rand_hexstr(rng: &mut Rng, n: usize) -> String {
    hex::encode(rng.bytes(n))
}
fn rand_word(rng: &mut Rng) -> String {
    let words = ["devnet", "preview", "mainnet", "pre-release-preview", "testing-sanchonet", "dev", "net", "0.1.0", "x", ""];
    (*rng.pick(&words)).to_string()
}
fn rand_u64(rng: &mut Rng) -> u64 {
    match rng.below(6) {
        0 => rng.below(10),
        1 => rng.below(100_000),
        2 => u64::MAX - rng.below(3),
        3 => 1u64 << rng.below(64),
        4 => (1u64 << 63) - 1 + rng.below(3),
        _ => rng.next(),
    }
}
fn rand_ts(rng: &mut Rng) -> Ts {
    match rng.below(8) {
        0 => (1_136_214_245, 0),
        1 => (1_700_000_000 + rng.below(10_000_000) as i64, rng.below(1_000_000_000) as u32),
        2 => (rng.below(4_000_000_000) as i64, [1u32, 999_999_999, 500_000_000, 123][rng.below(4) as usize]),
        3 => (-(rng.below(4_000_000_000) as i64), rng.below(1_000_000_000) as u32),
        // i64-nanosecond limits: 2262-04-11T23:47:16.854775807Z and 1677-09-21T00:12:43.145224192Z
        4 => (9_223_372_036, 854_775_807 - rng.below(3) as u32),
        5 => (-9_223_372_037, 145_224_192 + rng.below(3) as u32),
        6 => (0, rng.below(3) as u32),
        _ => (rng.below(2_000_000_000) as i64, 0),
    }
}
fn rand_phi(rng: &mut Rng) -> f64 {
    let two24 = 16_777_216.0f64;
    match rng.below(7) {
        0 => [0.65, 0.2, 0.05, 0.123, 1.0, 0.0, 0.5][rng.below(7) as usize],
        // exactly on a k/2^24 boundary
        1 => rng.below(1 << 24) as f64 / two24,
        // exactly half-way (tie) between two fixed-point values
        2 => (rng.below(1 << 24) as f64 + 0.5) / two24,
        // one ulp around a boundary / a tie
        3 => {
            let x = rng.below(1 << 24) as f64 / two24;
            if rng.coin() { f64::from_bits(x.to_bits() + 1) } else { f64::from_bits(x.to_bits().saturating_sub(1)) }
        }
        4 => {
            let x = (rng.below(1 << 24) as f64 + 0.5) / two24;
            if rng.coin() { f64::from_bits(x.to_bits() + 1) } else { f64::from_bits(x.to_bits() - 1) }
        }
        5 => (rng.next() >> 11) as f64 / (1u64 << 53) as f64,
        _ => rng.below(256) as f64 + rng.below(1 << 24) as f64 / two24,
    }
}
fn rand_set(rng: &mut Rng) -> Set {
    let e = rand_u64(rng);
    match rng.below(5) {
        0 => Set::Msd(e),
        1 => Set::Csd(e),
        2 => Set::Cdb(e, rand_u64(rng)),
        3 => Set::Ctx(e, rand_u64(rng)),
        _ => Set::Cbtx(e, rand_u64(rng), rand_u64(rng)),
    }
}
fn rand_signers(rng: &mut Rng) -> Vec<(String, u64)> {
    let n = rng.below(5);
    (0..n)
        .map(|i| {
            let pid = match rng.below(3) {
                0 => format!("pool1{}", rand_hexstr(rng, 4)),
                1 => format!("{}", i),
                _ => rand_hexstr(rng, 28),
            };
            (pid, rand_u64(rng))
        })
        .collect()
}
/// honest protocol message: hex digests, decimal numbers, hex-encoded keys
fn rand_pm(rng: &mut Rng, all_keys: bool) -> BTreeMap<usize, String> {
    let mut m = BTreeMap::new();
    for k in 0..KEYS.len() {
        if all_keys || rng.chance(1, 3) {
            let v = match k {
                5 | 6 | 7 | 8 => format!("{}", rand_u64(rng)),
                3 | 11 => { let n = rng.range(0, 40) as usize; rand_hexstr(rng, n) }
                _ => rand_hexstr(rng, 32),
            };
            m.insert(k, v);
        }
    }
    m
}
fn rand_cert(rng: &mut Rng) -> MCert {
    let all = rng.chance(1, 4);
    let pm = rand_pm(rng, all);
    let sig = if rng.chance(1, 4) { Sig::Genesis(rng.below(2) as usize) } else { Sig::Multi(rand_set(rng), rng.below(2) as usize) };
    MCert {
        hash: "h".into(),
        prev: if rng.chance(1, 5) { String::new() } else { rand_hexstr(rng, 32) },
        epoch: rand_u64(rng),
        meta: MMeta {
            network: rand_word(rng),
            version: rand_word(rng),
            k: rand_u64(rng),
            m: rand_u64(rng),
            phi: rand_phi(rng),
            init: rand_ts(rng),
            sealed: rand_ts(rng),
            signers: rand_signers(rng),
        },
        signed: if rng.coin() { pm_real(&pm).compute_hash() } else { rand_hexstr(rng, 32) },
        pm,
        avk: rng.below(3) as usize,
        sig,
    }
}

/// U8F24::from_num as the property's notion of "fixed-point precision", computed independently:
/// scaling by 2^24 is exact in f64 and round_ties_even is exact.
fn fixed_bits(x: f64) -> Option<u64> {
    let r = (x * 16_777_216.0).round_ties_even();
    if r.is_finite() && r >= 0.0 && r < 4_294_967_296.0 { Some(r as u64) } else { None }
}

fn different_u64(rng: &mut Rng, x: u64) -> u64 {
    match rng.below(4) {
        0 => x.wrapping_add(1),
        1 => x.wrapping_sub(1),
        2 => x ^ (1u64 << rng.below(64)),
        _ => {
            let y = rand_u64(rng);
            if y == x { x.wrapping_add(7) } else { y }
        }
    }
}
fn different_str(rng: &mut Rng, s: &str) -> String {
    match rng.below(4) {
        0 => format!("{}x", s),
        1 if !s.is_empty() => s[..s.len() - 1].to_string(),
        2 if !s.is_empty() => {
            let mut b = s.as_bytes().to_vec();
            let i = rng.below(b.len() as u64) as usize;
            b[i] = if b[i] == b'a' { b'b' } else { b'a' };
            String::from_utf8(b).unwrap_or_else(|_| format!("{}y", s))
        }
        _ => format!("z{}", s),
    }
}
fn different_ts(rng: &mut Rng, t: Ts) -> Ts {
    // sub-second and whole-second moves that stay inside chrono's range
    let (s, n) = t;
    match rng.below(4) {
        0 => if n < 999_999_999 { (s, n + 1) } else { (s, n - 1) },
        1 => if n > 0 { (s, n - 1) } else { (s, n + 1) },
        2 => (s + 1, n),
        _ => (s, (n + 500_000_000) % 1_000_000_000),
    }
}

/// single-field variants of `base` (each with what the property expects), plus collision probes
fn variants(rng: &mut Rng, base: &MCert) -> Vec<(Vec<Mut>, Expect, String)> {
    let mut v: Vec<(Vec<Mut>, Expect, String)> = vec![(vec![], Expect::Same, "identity".into())];
    let mut one = |m: Mut, e: Expect| {
        let n = m.name().to_string();
        v.push((vec![m], e, n))
    };
    one(Mut::Prev(different_str(rng, &base.prev)), Expect::Differ);
    one(Mut::Epoch(different_u64(rng, base.epoch)), Expect::Differ);
    one(Mut::Epoch(different_u64(rng, base.epoch)), Expect::Differ);
    one(Mut::Network(different_str(rng, &base.meta.network)), Expect::Differ);
    one(Mut::Version(different_str(rng, &base.meta.version)), Expect::Differ);
    one(Mut::K(different_u64(rng, base.meta.k)), Expect::Differ);
    one(Mut::M(different_u64(rng, base.meta.m)), Expect::Differ);
    // phi_f: judged at fixed-point precision
    for _ in 0..3 {
        let p = match rng.below(4) {
            0 => base.meta.phi + 1.0 / 16_777_216.0,
            1 => f64::from_bits(base.meta.phi.to_bits() + 1),
            2 => base.meta.phi + 1.0 / 1_073_741_824.0,
            _ => rand_phi(rng),
        };
        let e = match (fixed_bits(base.meta.phi), fixed_bits(p)) {
            (Some(a), Some(b)) if a == b => Expect::Same,
            (Some(_), Some(_)) => Expect::Differ,
            _ => Expect::Unjudged,
        };
        one(Mut::Phi(p), e);
    }
    for which in 0..2 {
        let t0 = if which == 0 { base.meta.init } else { base.meta.sealed };
        for _ in 0..2 {
            let t = different_ts(rng, t0);
            let e = if ts_in_i64(t0) && ts_in_i64(t) { Expect::Differ } else { Expect::Unjudged };
            one(if which == 0 { Mut::Init(t) } else { Mut::Sealed(t) }, e);
        }
    }
    // timestamps outside i64 nanoseconds: outside the quantifier (both clamp to 0)
    one(Mut::Init((20_000_000_000 + rng.below(1000) as i64, 5)), Expect::Unjudged);
    one(Mut::Sealed((-20_000_000_000, 7)), Expect::Unjudged);
    // signers: stake, party id, order, added, removed
    {
        let s = &base.meta.signers;
        let mut s1 = s.clone();
        if s1.is_empty() {
            s1.push(("p".into(), 1));
        } else {
            let i = rng.below(s1.len() as u64) as usize;
            s1[i].1 = different_u64(rng, s1[i].1);
        }
        one(Mut::Signers(s1), Expect::Differ);
        let mut s2 = s.clone();
        if s2.is_empty() {
            s2.push(("q".into(), 0));
        } else {
            let i = rng.below(s2.len() as u64) as usize;
            s2[i].0 = different_str(rng, &s2[i].0);
        }
        one(Mut::Signers(s2), Expect::Differ);
        if s.len() >= 2 && s[0] != s[1] {
            let mut s3 = s.clone();
            s3.swap(0, 1);
            one(Mut::Signers(s3), Expect::Differ);
        }
        let mut s4 = s.clone();
        s4.push((rand_hexstr(rng, 3), rand_u64(rng)));
        one(Mut::Signers(s4), Expect::Differ);
        // party id / stake boundary inside one party: ("ab", s) vs ("a", s') never collide (fixed-width stake)
    }
    // protocol message (honest grammar): value edit, entry added, entry removed
    {
        let mut p1 = base.pm.clone();
        if let Some(k) = p1.keys().cloned().nth(rng.below(p1.len().max(1) as u64) as usize) {
            let old = p1[&k].clone();
            let newv = if old.chars().all(|c| c.is_ascii_digit()) && !old.is_empty() {
                format!("{}", different_u64(rng, old.parse::<u64>().unwrap_or(0)))
            } else {
                let mut x = rand_hexstr(rng, old.len() / 2);
                if x == old { x.push_str("00") }
                x
            };
            p1.insert(k, newv);
            one(Mut::Pm(p1), Expect::Differ);
        }
        let mut p2 = base.pm.clone();
        let missing: Vec<usize> = (0..KEYS.len()).filter(|k| !p2.contains_key(k)).collect();
        if !missing.is_empty() {
            p2.insert(*rng.pick(&missing), rand_hexstr(rng, 8));
            one(Mut::Pm(p2), Expect::Differ);
        }
        let mut p3 = base.pm.clone();
        if let Some(k) = p3.keys().cloned().next() {
            p3.remove(&k);
            one(Mut::Pm(p3), Expect::Differ);
        }
    }
    one(Mut::Signed(different_str(rng, &base.signed)), Expect::Differ);
    one(Mut::Avk((base.avk + 1 + rng.below(2) as usize) % 3), Expect::Differ);
    // signature: value, kind, entity type (outside the known class)
    match &base.sig {
        Sig::Genesis(i) => {
            one(Mut::Sig(Sig::Genesis(1 - i)), Expect::Differ);
            one(Mut::Sig(Sig::Multi(rand_set(rng), 0)), Expect::Differ);
        }
        Sig::Multi(t, i) => {
            one(Mut::Sig(Sig::Multi(t.clone(), 1 - i)), Expect::Differ);
            one(Mut::Sig(Sig::Genesis(0)), Expect::Differ);
            for _ in 0..3 {
                let t2 = rand_set(rng);
                let t2 = match (&t2, rng.below(3)) {
                    // same numbers where the shapes allow, different variant outside the class
                    (_, 0) => match t {
                        Set::Msd(e) | Set::Csd(e) => Set::Cdb(*e, rand_u64(rng)),
                        Set::Cdb(e, i) | Set::Ctx(e, i) => Set::Cbtx(*e, *i, rand_u64(rng)),
                        Set::Cbtx(e, b, _) => Set::Ctx(*e, *b),
                    },
                    // one number changed under the same variant
                    (_, 1) => match t {
                        Set::Msd(e) => Set::Msd(different_u64(rng, *e)),
                        Set::Csd(e) => Set::Csd(different_u64(rng, *e)),
                        Set::Cdb(e, i) => Set::Cdb(*e, different_u64(rng, *i)),
                        Set::Ctx(e, b) => Set::Ctx(different_u64(rng, *e), *b),
                        Set::Cbtx(e, b, o) => Set::Cbtx(*e, *b, different_u64(rng, *o)),
                    },
                    _ => t2,
                };
                if &t2 != t && t.twin().as_ref() != Some(&t2) {
                    one(Mut::Sig(Sig::Multi(t2, *i)), Expect::Differ);
                }
            }
        }
    }
    // ---- probes outside the single-field quantifier (model faithfulness only) ----
    // network / version boundary shift: same byte stream
    let nv = format!("{}{}", base.meta.network, base.meta.version);
    if nv.is_ascii() {
        let cut = rng.below(nv.len() as u64 + 1) as usize;
        v.push((
            vec![Mut::Network(nv[..cut].to_string()), Mut::Version(nv[cut..].to_string())],
            Expect::Unjudged,
            "network/version boundary".into(),
        ));
    }
    // two fields edited at once
    v.push((
        vec![Mut::Epoch(different_u64(rng, base.epoch)), Mut::K(different_u64(rng, base.meta.k))],
        Expect::Unjudged,
        "two fields".into(),
    ));
    v
}

fn pattern(hs: &[String]) -> Vec<u64> {
    let mut seen: Vec<&String> = vec![];
    hs.iter()
        .map(|h| match seen.iter().position(|s| *s == h) {
            Some(i) => i as u64,
            None => {
                seen.push(h);
                (seen.len() - 1) as u64
            }
        })
        .collect()
}
/// outcome classes (0 ok, 1 err, 2 panic) + equality pattern of the Ok values, as `hash_obs`
fn hash_obs(rs: &[Option<Result<String, ()>>]) -> String {
    let classes: Vec<u64> = rs.iter().map(|r| match r { Some(Ok(_)) => 0, Some(Err(_)) => 1, None => 2 }).collect();
    let oks: Vec<String> = rs.iter().filter_map(|r| match r { Some(Ok(h)) => Some(h.clone()), _ => None }).collect();
    coq::ol(&[coq::oln(&classes), coq::oln(&pattern(&oks))])
}
fn cert_hash(c: &MCert) -> Option<Result<String, ()>> {
    let c = c.clone();
    hc::catch(move || c.real().try_compute_hash().map_err(|_| ()))
}

fn judge_batch(base: &Option<Result<String, ()>>, outs: &[(Option<Result<String, ()>>, Expect, String)]) -> (Option<bool>, Option<String>, Option<String>) {
    let Some(Ok(hb)) = base else { return (None, None, None) };
    let mut known = false;
    for (o, e, name) in outs {
        let Some(Ok(h)) = o else { continue };
        match e {
            Expect::Differ if h == hb => {
                return (Some(false), Some(format!("changing only `{}` left the certificate hash unchanged ({})", name, h)), None)
            }
            Expect::Same if h != hb => {
                return (Some(false), Some(format!("variant `{}` equal as the hash sees it, yet the hash changed", name)), None)
            }
            Expect::KnownCollision if h == hb => known = true,
            _ => {}
        }
    }
    if known {
        return (
            Some(false),
            Some("two certificates differing only in the signed entity type (same beacon numbers) have the same hash".into()),
            Some(KNOWN_SET.into()),
        );
    }
    (Some(true), None, None)
}

// ---------------------------------------------------------------- JSON text perturbation

fn json_ws(rng: &mut Rng) -> &'static str {
    ["", "", " ", "\n", "  ", "\t", "\r\n "][rng.below(7) as usize]
}
fn json_string(s: &str) -> String {
    serde_json::to_string(s).unwrap()
}
/// re-print a JSON value with shuffled object keys, random whitespace, alternative number text for
/// floats (exponent notation, trailing zeros) and `+00:00` instead of `Z` in timestamps
fn perturb(rng: &mut Rng, v: &serde_json::Value, key: &str) -> String {
    use serde_json::Value as V;
    match v {
        V::Null => "null".into(),
        V::Bool(b) => b.to_string(),
        V::Number(n) => {
            if n.is_f64() {
                let x = n.as_f64().unwrap();
                match rng.below(4) {
                    0 => format!("{:e}", x),
                    1 => format!("{:E}", x).replace('E', "E+").replace("E+-", "E-"),
                    2 => {
                        let s = n.to_string();
                        if s.contains('e') || s.contains('E') { s } else if s.contains('.') { format!("{}000", s) } else { format!("{}.0", s) }
                    }
                    _ => n.to_string(),
                }
            } else {
                n.to_string()
            }
        }
        V::String(s) => {
            if (key == "initiated_at" || key == "sealed_at") && s.ends_with('Z') && rng.coin() {
                json_string(&format!("{}+00:00", &s[..s.len() - 1]))
            } else {
                json_string(s)
            }
        }
        V::Array(a) => {
            let items: Vec<String> = a.iter().map(|x| format!("{}{}{}", json_ws(rng), perturb(rng, x, ""), json_ws(rng))).collect();
            format!("[{}]", items.join(","))
        }
        V::Object(o) => {
            let mut keys: Vec<&String> = o.keys().collect();
            rng.shuffle(&mut keys);
            let items: Vec<String> = keys
                .iter()
                .map(|k| format!("{}{}{}:{}{}{}", json_ws(rng), json_string(k), json_ws(rng), json_ws(rng), perturb(rng, &o[*k], k), json_ws(rng)))
                .collect();
            format!("{{{}}}", items.join(","))
        }
    }
}

struct MapRetriever(HashMap<String, Certificate>);
#[async_trait::async_trait]
impl CertificateRetriever for MapRetriever {
    async fn get_certificate_details(&self, h: &str) -> Result<Certificate, CertificateRetrieverError> {
        self.0.get(h).cloned().ok_or_else(|| CertificateRetrieverError(anyhow::anyhow!("not found")))
    }
}

fn main() {
    let args = hc::parse_args();
    let mut rng = Rng::new(args.seed);
    let mut sink = Sink::new(&args);
    let (n_batches, n_set, n_pm, n_rt, n_chain_rt) = if args.thorough { (160, 40, 120, 400, 2) } else { (14, 6, 10, 40, 1) };

    // ---- 1. certificate batches: single-field flips ----
    for _ in 0..n_batches {
        let mut r = rng.fork();
        let Some(id) = sink.wants() else { continue };
        let base = rand_cert(&mut r);
        let vs = variants(&mut r, &base);
        let hb = cert_hash(&base);
        let outs: Vec<(Option<Result<String, ()>>, Expect, String)> = vs
            .iter()
            .map(|(ms, e, n)| {
                let mut c = base.clone();
                for m in ms {
                    c = c.apply(m);
                }
                (cert_hash(&c), *e, n.clone())
            })
            .collect();
        let (holds, why, known) = judge_batch(&hb, &outs);
        let model = format!(
            "run_batch {} {}",
            base.coq(),
            coq::list(&vs.iter().map(|(ms, _, _)| coq::list(&ms.iter().map(|m| m.coq()).collect::<Vec<_>>())).collect::<Vec<_>>())
        );
        let n_differ = outs.iter().filter(|o| o.1 == Expect::Differ).count();
        sink.push(Case {
            id,
            kind: format!("cert-single-field/{}", if matches!(base.sig, Sig::Genesis(_)) { "genesis" } else { "standard" }),
            desc: serde_json::json!({"base": format!("{:?}", base), "variants": vs.iter().map(|(ms,e,n)| format!("{} {:?} {:?}", n, e, ms)).collect::<Vec<_>>()}),
            model: Some(model),
            impl_obs: hash_obs(&outs.iter().map(|o| o.0.clone()).collect::<Vec<_>>()),
            holds,
            why,
            known,
            nontrivial: n_differ >= 10 && matches!(hb, Some(Ok(_))),
            key: format!("{:?}", base),
        });
    }

    // ---- 2. the known class: entity types sharing beacon numbers ----
    for i in 0..n_set {
        let mut r = rng.fork();
        let Some(id) = sink.wants() else { continue };
        let mut base = rand_cert(&mut r);
        let t = loop {
            let t = rand_set(&mut r);
            if i % 3 == 2 || t.twin().is_some() { break t }
        };
        base.sig = Sig::Multi(t.clone(), 0);
        let mut vs: Vec<(Vec<Mut>, Expect, String)> = vec![];
        match t.twin() {
            Some(tw) => vs.push((vec![Mut::Sig(Sig::Multi(tw, 0))], Expect::KnownCollision, "signed_entity_type twin".into())),
            None => {
                // CardanoBlocksTransactions feeds its index: every other variant must differ
                if let Set::Cbtx(e, b, _) = t {
                    vs.push((vec![Mut::Sig(Sig::Multi(Set::Ctx(e, b), 0))], Expect::Differ, "signed_entity_type".into()));
                    vs.push((vec![Mut::Sig(Sig::Multi(Set::Cdb(e, b), 0))], Expect::Differ, "signed_entity_type".into()));
                }
            }
        }
        let hb = cert_hash(&base);
        let outs: Vec<_> = vs.iter().map(|(ms, e, n)| (cert_hash(&base.apply(&ms[0])), *e, n.clone())).collect();
        let (holds, why, known) = judge_batch(&hb, &outs);
        let mut all = vec![hb.clone()];
        all.extend(outs.iter().map(|o| o.0.clone()));
        let mut variants_coq = vec!["[]".to_string()];
        variants_coq.extend(vs.iter().map(|(ms, _, _)| coq::list(&[ms[0].coq()])));
        sink.push(Case {
            id,
            kind: if t.twin().is_some() { "entity-type-twin".into() } else { "entity-type-cbtx".into() },
            desc: serde_json::json!({"base": format!("{:?}", base), "variants": vs.iter().map(|(ms,e,_)| format!("{:?} {:?}", e, ms)).collect::<Vec<_>>()}),
            model: Some(format!("run_batch {} {}", base.coq(), coq::list(&variants_coq))),
            impl_obs: hash_obs(&all),
            holds,
            why,
            known,
            nontrivial: true,
            key: format!("{:?}", base.sig),
        });
    }

    // ---- 3. protocol messages ----
    for i in 0..n_pm {
        let mut r = rng.fork();
        let Some(id) = sink.wants() else { continue };
        let base = rand_pm(&mut r, i % 3 == 0);
        let mut ms: Vec<(BTreeMap<usize, String>, bool)> = vec![(base.clone(), true)]; // (message, honest grammar)
        // honest single edits
        for k in base.keys().cloned().collect::<Vec<_>>() {
            let mut m = base.clone();
            let old = m[&k].clone();
            let newv = if !old.is_empty() && old.chars().all(|c| c.is_ascii_digit()) {
                format!("{}", different_u64(&mut r, old.parse::<u64>().unwrap_or(1)))
            } else {
                format!("{}{}", old, ["0", "a", "f", "00"][r.below(4) as usize])
            };
            m.insert(k, newv);
            ms.push((m, true));
            let mut m = base.clone();
            m.remove(&k);
            ms.push((m, true));
        }
        // a value moved to another key
        if let (Some(k), Some(free)) = (base.keys().next().cloned(), (0..KEYS.len()).find(|k| !base.contains_key(k))) {
            let mut m = base.clone();
            let v = m.remove(&k).unwrap();
            m.insert(free, v);
            ms.push((m, true));
        }
        // outside the honest grammar: a value that swallows the next key and value (same bytes in
        // declaration order) — separates BTreeMap (enum) order from any other ordering
        let ks: Vec<usize> = base.keys().cloned().collect();
        if ks.len() >= 2 {
            let j = r.below(ks.len() as u64 - 1) as usize;
            let mut m = base.clone();
            let v2 = m.remove(&ks[j + 1]).unwrap();
            let v1 = m[&ks[j]].clone();
            m.insert(ks[j], format!("{}{}{}", v1, KEYS[ks[j + 1]], v2));
            ms.push((m, false));
        }
        {
            let mut m: BTreeMap<usize, String> = BTreeMap::new();
            m.insert(0, "aa".into());
            m.insert(5, "7".into());
            ms.push((m, true));
            let mut m2: BTreeMap<usize, String> = BTreeMap::new();
            m2.insert(0, format!("aa{}7", KEYS[5]));
            ms.push((m2, false));
        }
        let hashes: Vec<String> = ms.iter().map(|(m, _)| pm_real(m).compute_hash()).collect();
        // oracle: honest messages that differ must have different digests
        let mut holds = true;
        let mut why = None;
        'o: for a in 0..ms.len() {
            for b in (a + 1)..ms.len() {
                if ms[a].1 && ms[b].1 && ms[a].0 != ms[b].0 && hashes[a] == hashes[b] {
                    holds = false;
                    why = Some(format!("two different well-formed protocol messages have the same digest: {:?} / {:?}", ms[a].0, ms[b].0));
                    break 'o;
                }
                if ms[a].0 == ms[b].0 && hashes[a] != hashes[b] {
                    holds = false;
                    why = Some("equal protocol messages with different digests".into());
                    break 'o;
                }
            }
        }
        sink.push(Case {
            id,
            kind: "protocol-message".into(),
            desc: serde_json::json!({"messages": ms.iter().map(|(m, h)| format!("{} {:?}", if *h {"honest"} else {"free"}, m)).collect::<Vec<_>>()}),
            model: Some(format!("run_pm {}", coq::list(&ms.iter().map(|(m, _)| format!("(pmsg_of {})", pm_coq(m))).collect::<Vec<_>>()))),
            impl_obs: coq::oln(&pattern(&hashes)),
            holds: Some(holds),
            why,
            known: None,
            nontrivial: base.len() >= 2,
            key: format!("{:?}", base),
        });
    }

    // ---- 4. fixed-point conversion of phi_f (the precision the property speaks about) ----
    {
        let mut r = rng.fork();
        if let Some(id) = sink.wants() {
            let n = if args.thorough { 3000 } else { 300 };
            let mut xs: Vec<f64> = vec![0.0, -0.0, 1.0, 0.65, 0.2, 255.0, 255.99999997, 255.99999998, 255.999999971, 256.0, 300.0, -1e-9, -2.9e-8, -3.0e-8, -1.0, 5e-324, 1e300, -1e300, 2.98e-8, 2.99e-8];
            for _ in 0..n {
                xs.push(rand_phi(&mut r));
            }
            let outs: Vec<Option<u64>> = xs
                .iter()
                .map(|x| {
                    let x = *x;
                    hc::catch(move || ProtocolParameters::new(1, 1, x).phi_f_fixed().to_bits() as u64)
                })
                .collect();
            let mut holds = true;
            let mut why = None;
            for (x, o) in xs.iter().zip(outs.iter()) {
                if *o != fixed_bits(*x) {
                    holds = false;
                    why = Some(format!("phi_f_fixed({:e}) = {:?}, round-to-nearest-even at 2^-24 gives {:?}", x, o, fixed_bits(*x)));
                    break;
                }
            }
            sink.push(Case {
                id,
                kind: "phi-fixed".into(),
                desc: serde_json::json!({"count": xs.len(), "sample": xs.iter().take(24).map(|x| format!("{:e}", x)).collect::<Vec<_>>()}),
                model: Some(format!("run_fixed {}", coq::list(&xs.iter().map(|x| phi_coq(*x)).collect::<Vec<_>>()))),
                impl_obs: coq::ol(&outs.iter().map(|o| match o { Some(b) => coq::ores_ok(coq::on(*b)), None => coq::ores_panic() }).collect::<Vec<_>>()),
                holds: Some(holds),
                why,
                known: None,
                nontrivial: true,
                key: "phi-fixed".into(),
            });
        }
    }

    // ---- 4b. phi_f through JSON number text: canonical (serde_json's own output) and re-formatted ----
    for canonical in [true, false] {
        let mut r = rng.fork();
        let Some(id) = sink.wants() else { continue };
        let n = if args.thorough { 40_000 } else { 4_000 };
        let mut bad: Option<String> = None;
        let mut crossed = 0u64;
        for _ in 0..n {
            let x = rand_phi(&mut r);
            let fmt = r.below(3);
            let canon = serde_json::to_string(&x).unwrap();
            let text = if canonical { canon.clone() } else {
                match fmt {
                    0 => format!("{:e}", x),
                    1 => if canon.contains('e') { canon.clone() } else if canon.contains('.') { format!("{}000", canon) } else { format!("{}.0", canon) },
                    _ => format!("{:E}", x).replace('E', "E+").replace("E+-", "E-"),
                }
            };
            let json = format!("{{\"k\":1,\"m\":2,\"phi_f\":{}}}", text);
            let Ok(p) = serde_json::from_str::<ProtocolParameters>(&json) else { bad.get_or_insert(format!("{} does not parse", json)); continue };
            if p.phi_f.to_bits() != x.to_bits() { crossed += 1; }
            if fixed_bits(p.phi_f) != fixed_bits(x) && bad.is_none() {
                bad = Some(format!("phi_f {:e} written as {} is read back as {:e}: fixed-point value {:?} -> {:?}, so the certificate hash changes", x, text, p.phi_f, fixed_bits(x), fixed_bits(p.phi_f)));
            }
        }
        sink.push(Case {
            id,
            kind: if canonical { "phi-json-canonical".into() } else { "phi-json-reformatted".into() },
            desc: serde_json::json!({"values": n, "read_back_with_different_bits": crossed, "first_failure": bad}),
            model: None,
            impl_obs: coq::ol(&[coq::ob(bad.is_none())]),
            holds: Some(bad.is_none()),
            why: bad.clone(),
            known: None,
            nontrivial: true,
            key: format!("phi-json-{}", canonical),
        });
    }

    // ---- 5. wire round trip: Certificate -> CertificateMessage -> JSON text (perturbed) -> back ----
    for _ in 0..n_rt {
        let mut r = rng.fork();
        let Some(id) = sink.wants() else { continue };
        let mut mc = rand_cert(&mut r);
        // keep phi_f inside the fixed-point domain so that hashing is defined
        if fixed_bits(mc.meta.phi).is_none() {
            mc.meta.phi = 0.65;
        }
        let cert = mc.real();
        let mc2 = mc.clone();
        let out = hc::catch(move || -> Result<(Vec<Option<Result<String, ()>>>, [String; 2], String), String> {
            let h0 = cert.try_compute_hash().map_err(|e| e.to_string())?;
            let msg: CertificateMessage = cert.clone().try_into().map_err(|e: anyhow::Error| e.to_string())?;
            let value = serde_json::to_value(&msg).map_err(|e| e.to_string())?;
            let text = perturb(&mut r, &value, "");
            let msg2: CertificateMessage = serde_json::from_str(&text).map_err(|e| format!("{} in {}", e, text))?;
            let cert2: Certificate = msg2.try_into().map_err(|e: anyhow::Error| e.to_string())?;
            let h1 = cert2.try_compute_hash().map_err(|e| e.to_string())?;
            Ok((
                vec![Some(Ok(cert.hash.clone())), Some(Ok(h0)), Some(Ok(cert2.hash.clone())), Some(Ok(h1))],
                [cert.signed_message.clone(), cert2.signed_message.clone()],
                text,
            ))
        });
        let (obs, holds, why, text) = match &out {
            Some(Ok((hs, sm, text))) => {
                let same_hash = hs[1] == hs[3] && hs[0] == hs[2];
                let same_sm = sm[0] == sm[1];
                (
                    coq::ol(&[coq::ob(true), hash_obs(hs), coq::oln(&pattern(&sm.to_vec()))]),
                    same_hash && same_sm,
                    if !same_hash { Some("hash changed across certificate -> message -> JSON -> certificate".to_string()) } else if !same_sm { Some("signed message changed across the wire".to_string()) } else { None },
                    text.clone(),
                )
            }
            Some(Err(e)) => (coq::ol(&[coq::ob(false)]), false, Some(format!("round trip failed: {}", e)), String::new()),
            None => (coq::ores_panic(), false, Some("round trip panicked".into()), String::new()),
        };
        sink.push(Case {
            id,
            kind: format!("wire-roundtrip/{}", if matches!(mc2.sig, Sig::Genesis(_)) { "genesis" } else { "standard" }),
            desc: serde_json::json!({"certificate": format!("{:?}", mc2), "json": text}),
            model: Some(format!("run_roundtrip {}", mc2.coq())),
            impl_obs: obs,
            holds: Some(holds),
            why,
            known: None,
            nontrivial: true,
            key: format!("{:?}", mc2),
        });
    }

    // ---- 6. round trip of genuine chain certificates: verification outcome before / after ----
    let rt = tokio::runtime::Builder::new_current_thread().enable_all().build().unwrap();
    for _ in 0..n_chain_rt {
        let mut r = rng.fork();
        let total = r.range(3, 6);
        let per_epoch = r.range(1, 2);
        let chain = CertificateChainBuilder::new().with_total_certificates(total).with_certificates_per_epoch(per_epoch).build();
        let map: HashMap<String, Certificate> = chain.certificates_chained.iter().map(|c| (c.hash.clone(), c.clone())).collect();
        let verifier = MithrilCertificateVerifier::new(
            slog::Logger::root(slog::Discard, slog::o!()),
            Arc::new(MapRetriever(map)),
            Arc::new(chain.genesis_verifier.clone()),
        );
        for cert in chain.certificates_chained.iter() {
            let mut r2 = r.fork();
            let Some(id) = sink.wants() else { continue };
            let before = rt.block_on(verifier.verify_certificate(cert)).is_ok();
            let res: Result<(Certificate, String), String> = (|| {
                let msg: CertificateMessage = cert.clone().try_into().map_err(|e: anyhow::Error| e.to_string())?;
                let value = serde_json::to_value(&msg).map_err(|e| e.to_string())?;
                let text = perturb(&mut r2, &value, "");
                let msg2: CertificateMessage = serde_json::from_str(&text).map_err(|e| e.to_string())?;
                Ok((msg2.try_into().map_err(|e: anyhow::Error| e.to_string())?, text))
            })();
            let (holds, why, obs) = match &res {
                Ok((c2, _)) => {
                    let after = rt.block_on(verifier.verify_certificate(c2)).is_ok();
                    let h2 = c2.try_compute_hash().unwrap_or_default();
                    let ok = before && after && h2 == cert.hash && c2.hash == cert.hash && c2.signed_message == cert.signed_message;
                    (
                        ok,
                        if ok { None } else { Some(format!("verification before={} after={} hash {} -> {}", before, after, cert.hash, h2)) },
                        coq::ol(&[coq::ob(before), coq::ob(after), coq::ob(h2 == cert.hash)]),
                    )
                }
                Err(e) => (false, Some(format!("round trip failed: {}", e)), coq::ol(&[coq::ob(before)])),
            };
            sink.push(Case {
                id,
                kind: format!("wire-roundtrip-verify/{}", if cert.is_genesis() { "genesis" } else { "standard" }),
                desc: serde_json::json!({"hash": cert.hash, "epoch": *cert.epoch, "json": res.as_ref().map(|x| x.1.clone()).unwrap_or_default()}),
                model: None,
                impl_obs: obs,
                holds: Some(holds),
                why,
                known: None,
                nontrivial: true,
                key: cert.hash.clone(),
            });
        }
    }
    sink.finish();
}
