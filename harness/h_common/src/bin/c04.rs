//! C04 correspondence harness: certificates are tamper-evident and survive the wire unchanged.
//!
//! Real `Certificate` / `CertificateMetadata` / `ProtocolParameters` / `ProtocolMessage` values are
//! built from a structural description (`MCert`); the same description is printed as a term of the
//! Coq model (C04/Model.v).  Hash-valued outputs are compared by *equality pattern* over a batch
//! (one base value and its variants).  The `holds` oracle judges the property from provenance:
//! a variant that differs from the base in exactly one field (as the hash sees it) must hash
//! differently; the JSON round trip must preserve hash, signed message and verification outcome.
use chrono::{DateTime, Utc};
use hc::{coq, Case, Rng, Sink};
use mithril_common::certificate_chain::{
    CertificateRetriever, CertificateRetrieverError, CertificateVerifier, MithrilCertificateVerifier,
};
use mithril_common::entities::{
    BlockNumber, BlockNumberOffset, CardanoDbBeacon, Certificate, CertificateMetadata,
    CertificateSignature, Epoch, ProtocolMessage, ProtocolMessagePartKey as K, ProtocolParameters,
    SignedEntityType, StakeDistributionParty,
};
use mithril_common::messages::CertificateMessage;
use mithril_common::test::builder::CertificateChainBuilder;
use mithril_common::test::double::fake_keys;
use std::collections::{BTreeMap, HashMap};
use std::sync::Arc;

const KNOWN_SET: &str = "C04-feed-hash-entity-type-collision";

/// ProtocolMessagePartKey in declaration order (index = position in Gen.Consts.PM_KEYS).
const KEYS: [K; 12] = [
    K::SnapshotDigest,
    K::CardanoTransactionsMerkleRoot,
    K::CardanoBlocksTransactionsMerkleRoot,
    K::NextAggregateVerificationKey,
    K::NextProtocolParameters,
    K::CurrentEpoch,
    K::LatestBlockNumber,
    K::CardanoBlocksTransactionsBlockNumberOffset,
    K::CardanoStakeDistributionEpoch,
    K::CardanoStakeDistributionMerkleRoot,
    K::CardanoDatabaseMerkleRoot,
    K::NextSnarkAggregateVerificationKey,
];
#[allow(dead_code)]
fn key_index(k: &K) -> usize {
    KEYS.iter().position(|x| x == k).expect("unknown ProtocolMessagePartKey: extend KEYS")
}

#[derive(Clone, Debug, PartialEq)]
enum Set {
    Msd(u64),
    Csd(u64),
    Cdb(u64, u64),
    Ctx(u64, u64),
    Cbtx(u64, u64, u64),
}
impl Set {
    fn real(&self) -> SignedEntityType {
        match *self {
            Set::Msd(e) => SignedEntityType::MithrilStakeDistribution(Epoch(e)),
            Set::Csd(e) => SignedEntityType::CardanoStakeDistribution(Epoch(e)),
            Set::Cdb(e, i) => SignedEntityType::CardanoDatabase(CardanoDbBeacon::new(e, i)),
            Set::Ctx(e, b) => SignedEntityType::CardanoTransactions(Epoch(e), BlockNumber(b)),
            Set::Cbtx(e, b, o) => {
                SignedEntityType::CardanoBlocksTransactions(Epoch(e), BlockNumber(b), BlockNumberOffset(o))
            }
        }
    }
    fn coq(&self) -> String {
        match *self {
            Set::Msd(e) => format!("(MSD {})", e),
            Set::Csd(e) => format!("(CSD {})", e),
            Set::Cdb(e, i) => format!("(CDb {} {})", e, i),
            Set::Ctx(e, b) => format!("(CTx {} {})", e, b),
            Set::Cbtx(e, b, o) => format!("(CBTx {} {} {})", e, b, o),
        }
    }
    /// same numbers under the other variant of the known collision class
    fn twin(&self) -> Option<Set> {
        match *self {
            Set::Msd(e) => Some(Set::Csd(e)),
            Set::Csd(e) => Some(Set::Msd(e)),
            Set::Cdb(e, i) => Some(Set::Ctx(e, i)),
            Set::Ctx(e, b) => Some(Set::Cdb(e, b)),
            Set::Cbtx(..) => None,
        }
    }
}

/// Aggregate verification key (Concatenation) as a composite value: Merkle root, number of leaves,
/// total stake.  Built through the public json-hex codec.
#[derive(Clone, Debug, PartialEq)]
struct Avk {
    root: Vec<u8>,
    nr: u64,
    total: u64,
}
impl Avk {
    fn fake(i: usize) -> Avk {
        let text = fake_keys::aggregate_verification_key_for_concatenation()[i];
        let v: serde_json::Value = serde_json::from_slice(&hex::decode(text).expect("fake avk hex")).expect("fake avk json");
        Avk {
            root: v["mt_commitment"]["root"].as_array().expect("root").iter().map(|b| b.as_u64().unwrap() as u8).collect(),
            nr: v["mt_commitment"]["nr_leaves"].as_u64().expect("nr_leaves"),
            total: v["total_stake"].as_u64().expect("total_stake"),
        }
    }
    fn text(&self) -> String {
        let root: Vec<String> = self.root.iter().map(|b| b.to_string()).collect();
        hex::encode(format!(
            "{{\"mt_commitment\":{{\"root\":[{}],\"nr_leaves\":{},\"hasher\":null}},\"total_stake\":{}}}",
            root.join(","),
            self.nr,
            self.total
        ))
    }
    fn coq(&self) -> String {
        format!("(avk_of {} {} {})", hxb(&self.root), self.nr, self.total)
    }
}

/// Genesis (Ed25519) signature: one of the fake signatures, optionally with one byte replaced.
#[derive(Clone, Debug, PartialEq)]
struct GSig {
    base: usize,
    edit: Option<(usize, u8)>,
}
impl GSig {
    fn bytes(&self) -> Vec<u8> {
        let mut b = hex::decode(fake_keys::genesis_signature()[self.base]).expect("fake genesis signature hex");
        if let Some((p, v)) = self.edit {
            b[p] = v;
        }
        b
    }
    fn text(&self) -> String {
        hex::encode(self.bytes())
    }
    /// identity of the signature value in the model (distinct values <-> distinct ids)
    fn id(&self) -> u64 {
        self.base as u64 * 100_000 + self.edit.map(|(p, v)| 1 + p as u64 * 256 + v as u64).unwrap_or(0)
    }
    fn usable(&self) -> bool {
        let unchanged = match self.edit { Some((p, v)) => GSig { base: self.base, edit: None }.bytes()[p] == v, None => false };
        !unchanged && mithril_common::crypto_helper::GenesisEd25519Signature::try_from(self.text()).is_ok()
    }
}

/// STM multi-signature: one of the fake ones, optionally with one component edited in its JSON form.
const MSIG_EDITS: u8 = 9;
#[derive(Clone, PartialEq)]
struct MSig {
    base: usize,
    edit: u8,
}
impl std::fmt::Debug for MSig {
    fn fmt(&self, f: &mut std::fmt::Formatter<'_>) -> std::fmt::Result {
        write!(f, "MSig(fake {}, edit {}: {})", self.base, self.edit, self.edit_name())
    }
}
impl MSig {
    fn edit_name(&self) -> &'static str {
        ["none", "first index +1", "last index of the second signature dropped", "signer_index", "registered stake",
         "batch proof index", "signatures swapped", "second signature dropped", "batch proof value added", "an index +2^32"][self.edit as usize]
    }
    fn text(&self) -> String {
        let text = fake_keys::multi_signature()[self.base];
        if self.edit == 0 {
            return text.to_string();
        }
        let mut v: serde_json::Value = serde_json::from_slice(&hex::decode(text).expect("fake multi sig hex")).expect("fake multi sig json");
        {
            use serde_json::json;
            match self.edit {
                1 => { let x = v["signatures"][0][0]["indexes"][0].as_u64().unwrap(); v["signatures"][0][0]["indexes"][0] = json!(x + 1); }
                2 => { v["signatures"][1][0]["indexes"].as_array_mut().unwrap().pop(); }
                3 => { let x = v["signatures"][0][0]["signer_index"].as_u64().unwrap(); v["signatures"][0][0]["signer_index"] = json!(x + 2); }
                4 => { let x = v["signatures"][1][1][1].as_u64().unwrap(); v["signatures"][1][1][1] = json!(x + 1); }
                5 => { let x = v["batch_proof"]["indices"][0].as_u64().unwrap(); v["batch_proof"]["indices"][0] = json!(x + 5); }
                6 => { v["signatures"].as_array_mut().unwrap().swap(0, 1); }
                7 => { v["signatures"].as_array_mut().unwrap().pop(); }
                8 => { v["batch_proof"]["values"].as_array_mut().unwrap().push(json!(vec![7u8; 32])); }
                _ => { let x = v["signatures"][1][0]["indexes"][3].as_u64().unwrap(); v["signatures"][1][0]["indexes"][3] = json!(x + (1u64 << 32)); }
            }
        }
        hex::encode(serde_json::to_string(&v).unwrap())
    }
    fn id(&self) -> u64 {
        self.base as u64 * 100 + self.edit as u64
    }
    fn decoded(&self) -> Option<String> {
        let k: mithril_common::crypto_helper::ProtocolMultiSignature = self.text().try_into().ok()?;
        k.to_json_hex().ok()
    }
    /// decodes, and to a value different from the unedited one
    fn usable(&self) -> bool {
        match (self.decoded(), MSig { base: self.base, edit: 0 }.decoded()) {
            (Some(a), Some(b)) => self.edit == 0 || a != b,
            _ => false,
        }
    }
}

#[derive(Clone, Debug, PartialEq)]
enum Sig {
    Genesis(GSig),
    Multi(Set, MSig),
}
impl Sig {
    fn coq(&self) -> String {
        match self {
            Sig::Genesis(g) => format!("(GenesisSig (Junk {}))", g.id()),
            Sig::Multi(t, m) => format!("(MultiSig {} (MS {}))", t.coq(), m.id()),
        }
    }
}

/// timestamp = (seconds, nanoseconds) since the Unix epoch
type Ts = (i64, u32);
fn ts_real(t: Ts) -> DateTime<Utc> {
    DateTime::from_timestamp(t.0, t.1).expect("timestamp in chrono range")
}
fn ts_total(t: Ts) -> i128 {
    t.0 as i128 * 1_000_000_000 + t.1 as i128
}
/// non-leap representation of a total number of nanoseconds
fn ts_of_total(n: i128) -> Ts {
    (n.div_euclid(1_000_000_000) as i64, n.rem_euclid(1_000_000_000) as u32)
}
fn ts_in_i64(t: Ts) -> bool {
    let n = ts_total(t);
    n >= i64::MIN as i128 && n <= i64::MAX as i128
}

#[derive(Clone, Debug)]
struct MMeta {
    network: String,
    version: String,
    k: u64,
    m: u64,
    phi: f64,
    init: Ts,
    sealed: Ts,
    signers: Vec<(String, u64)>,
}
#[derive(Clone, Debug)]
struct MCert {
    hash: String,
    prev: String,
    epoch: u64,
    meta: MMeta,
    pm: BTreeMap<usize, String>,
    signed: String,
    avk: Avk,
    sig: Sig,
}

#[derive(Clone, Debug)]
enum Mut {
    Prev(String),
    Epoch(u64),
    Network(String),
    Version(String),
    K(u64),
    M(u64),
    Phi(f64),
    Init(Ts),
    Sealed(Ts),
    Signers(Vec<(String, u64)>),
    Pm(BTreeMap<usize, String>),
    Signed(String),
    Avk(Avk),
    Sig(Sig),
}

/// a byte string as a term of type `list N`: C04.Model.bs (length, big-endian value as one hexadecimal
/// numeral) — one numeral is several times cheaper for coqc to read than a list of byte numerals
fn hxb(b: &[u8]) -> String {
    if b.is_empty() { "[]".to_string() } else { format!("(bs {}%nat 0x{})", b.len(), hex::encode(b)) }
}
/// let-bind every byte-string literal that occurs more than once in a model term (a batch repeats the
/// base's strings in most variants): `let x0 := (bs …) in … x0 … x0 …`
fn share(term: String) -> String {
    let mut counts: Vec<(String, usize)> = vec![];
    let mut i = 0;
    while let Some(p) = term[i..].find("(bs ") {
        let start = i + p;
        let end = start + term[start..].find(')').expect("closing parenthesis") + 1;
        let tok = &term[start..end];
        match counts.iter_mut().find(|(t, _)| t == tok) {
            Some(c) => c.1 += 1,
            None => counts.push((tok.to_string(), 1)),
        }
        i = end;
    }
    let mut out = term.clone();
    let mut prefix = String::new();
    for (n, (tok, c)) in counts.iter().filter(|(t, c)| *c >= 2 && t.len() > 24).enumerate() {
        let _ = c;
        let name = format!("xs{}_", n);
        out = out.replace(tok.as_str(), &name);
        prefix.push_str(&format!("let {} := {} in ", name, tok));
    }
    format!("{}{}", prefix, out)
}
fn lit(s: &str) -> String {
    format!("(BLit {})", hxb(s.as_bytes()))
}
fn dyadic(x: f64) -> Option<(i128, i128)> {
    if !x.is_finite() {
        return None;
    }
    let bits = x.to_bits();
    let sign: i128 = if bits >> 63 == 1 { -1 } else { 1 };
    let e = ((bits >> 52) & 0x7ff) as i128;
    let frac = (bits & ((1u64 << 52) - 1)) as i128;
    Some(if e == 0 { (sign * frac, -1074) } else { (sign * (frac | (1 << 52)), e - 1075) })
}
fn phi_coq(x: f64) -> String {
    let (m, e) = dyadic(x).expect("finite phi_f");
    format!("({}, {})%Z", m, e)
}
fn signers_coq(s: &[(String, u64)]) -> String {
    coq::list(&s.iter().map(|(p, st)| format!("({}, {})", hxb(p.as_bytes()), st)).collect::<Vec<_>>())
}
fn pm_coq(pm: &BTreeMap<usize, String>) -> String {
    coq::list(&pm.iter().map(|(k, v)| format!("({}%nat, {})", k, lit(v))).collect::<Vec<_>>())
}
impl MMeta {
    fn coq(&self) -> String {
        format!(
            "(mk_meta {} {} {} {} {} ({})%Z ({})%Z {})",
            hxb(self.network.as_bytes()),
            hxb(self.version.as_bytes()),
            self.k,
            self.m,
            phi_coq(self.phi),
            ts_total(self.init),
            ts_total(self.sealed),
            signers_coq(&self.signers)
        )
    }
    fn real(&self) -> CertificateMetadata {
        CertificateMetadata::new(
            self.network.clone(),
            self.version.clone(),
            ProtocolParameters::new(self.k, self.m, self.phi),
            ts_real(self.init),
            ts_real(self.sealed),
            self.signers
                .iter()
                .map(|(p, s)| StakeDistributionParty { party_id: p.clone(), stake: *s })
                .collect(),
        )
    }
}
fn pm_real(pm: &BTreeMap<usize, String>) -> ProtocolMessage {
    let mut m = ProtocolMessage::new();
    for (k, v) in pm {
        m.set_message_part(KEYS[*k], v.clone());
    }
    m
}
impl MCert {
    fn coq(&self) -> String {
        format!(
            "(mk_cert {} {} {} {} {} {} {} {})",
            lit(&self.hash),
            lit(&self.prev),
            self.epoch,
            self.meta.coq(),
            pm_coq(&self.pm),
            lit(&self.signed),
            self.avk.coq(),
            self.sig.coq()
        )
    }
    fn real(&self) -> Certificate {
        let signature = match &self.sig {
            Sig::Genesis(g) => CertificateSignature::GenesisSignature(g.text().try_into().expect("genesis signature decodes")),
            Sig::Multi(t, m) => CertificateSignature::MultiSignature(t.real(), m.text().try_into().expect("multi-signature decodes")),
        };
        Certificate {
            hash: self.hash.clone(),
            previous_hash: self.prev.clone(),
            epoch: Epoch(self.epoch),
            metadata: self.meta.real(),
            protocol_message: pm_real(&self.pm),
            signed_message: self.signed.clone(),
            aggregate_verification_key: self.avk.text().try_into().expect("aggregate verification key decodes"),
            ancillary_prover_data: None,
            ancillary_verifier_data: None,
            signature,
        }
    }
    fn apply(&self, m: &Mut) -> MCert {
        let mut c = self.clone();
        match m.clone() {
            Mut::Prev(s) => c.prev = s,
            Mut::Epoch(e) => c.epoch = e,
            Mut::Network(s) => c.meta.network = s,
            Mut::Version(s) => c.meta.version = s,
            Mut::K(n) => c.meta.k = n,
            Mut::M(n) => c.meta.m = n,
            Mut::Phi(p) => c.meta.phi = p,
            Mut::Init(t) => c.meta.init = t,
            Mut::Sealed(t) => c.meta.sealed = t,
            Mut::Signers(s) => c.meta.signers = s,
            Mut::Pm(p) => c.pm = p,
            Mut::Signed(s) => c.signed = s,
            Mut::Avk(a) => c.avk = a,
            Mut::Sig(s) => c.sig = s,
        }
        c
    }
}
impl Mut {
    fn coq(&self) -> String {
        match self {
            Mut::Prev(s) => format!("MPrev {}", lit(s)),
            Mut::Epoch(e) => format!("MEpoch {}", e),
            Mut::Network(s) => format!("MNetwork {}", hxb(s.as_bytes())),
            Mut::Version(s) => format!("MVersion {}", hxb(s.as_bytes())),
            Mut::K(n) => format!("MK {}", n),
            Mut::M(n) => format!("MM {}", n),
            Mut::Phi(p) => format!("MPhi {}", phi_coq(*p)),
            Mut::Init(t) => format!("MInit ({})%Z", ts_total(*t)),
            Mut::Sealed(t) => format!("MSealed ({})%Z", ts_total(*t)),
            Mut::Signers(s) => format!("MSignersOf {}", signers_coq(s)),
            Mut::Pm(p) => format!("MPmOf {}", pm_coq(p)),
            Mut::Signed(s) => format!("MSigned {}", lit(s)),
            Mut::Avk(a) => format!("MAvk {}", a.coq()),
            Mut::Sig(s) => format!("MSig {}", s.coq()),
        }
    }
    fn name(&self) -> &'static str {
        match self {
            Mut::Prev(_) => "previous_hash",
            Mut::Epoch(_) => "epoch",
            Mut::Network(_) => "network",
            Mut::Version(_) => "protocol_version",
            Mut::K(_) => "k",
            Mut::M(_) => "m",
            Mut::Phi(_) => "phi_f",
            Mut::Init(_) => "initiated_at",
            Mut::Sealed(_) => "sealed_at",
            Mut::Signers(_) => "signers",
            Mut::Pm(_) => "protocol_message",
            Mut::Signed(_) => "signed_message",
            Mut::Avk(_) => "aggregate_verification_key",
            Mut::Sig(_) => "signature",
        }
    }
}

/// What the property says about a variant relative to the base.
#[derive(Clone, Copy, Debug, PartialEq)]
enum Expect {
    /// exactly one field differs (as the hash sees it): the hash MUST differ
    Differ,
    /// nothing differs as the hash sees it: the hash must be the same (determinism)
    Same,
    /// outside the property's quantifier (several fields edited, unrepresentable timestamps…)
    Unjudged,
    /// the known class: signed entity types sharing beacon numbers
    KnownCollision,
}

// ---------------------------------------------------------------- generators

fn rand_hexstr(rng: &mut Rng, n: usize) -> String {
    hex::encode(rng.bytes(n))
}
fn rand_word(rng: &mut Rng) -> String {
    let words = ["devnet", "preview", "mainnet", "pre-release-preview", "testing-sanchonet", "dev", "net", "0.1.0", "x", "", "Main Net", " padded ", "tab\there", "quote\"back\\slash/", "nul\0byte", "0.2.0-rc.1+Build"];
    (*rng.pick(&words)).to_string()
}
fn rand_u64(rng: &mut Rng) -> u64 {
    match rng.below(7) {
        0 => rng.below(10),
        1 => rng.below(100_000),
        2 => u64::MAX - rng.below(3),
        3 => 1u64 << rng.below(64),
        4 => (1u64 << 63) - 1 + rng.below(3),
        5 => (1u64 << 32) - 1 + rng.below(3),
        _ => rng.next(),
    }
}
fn rand_ts(rng: &mut Rng) -> Ts {
    match rng.below(9) {
        0 => (1_136_214_245, 0),
        1 => (1_700_000_000 + rng.below(10_000_000) as i64, rng.below(1_000_000_000) as u32),
        2 => (rng.below(4_000_000_000) as i64, [1u32, 999_999_999, 500_000_000, 123][rng.below(4) as usize]),
        3 => (-(rng.below(4_000_000_000) as i64), rng.below(1_000_000_000) as u32),
        // i64-nanosecond limits: 2262-04-11T23:47:16.854775807Z and 1677-09-21T00:12:43.145224192Z
        4 => (9_223_372_036, 854_775_807 - rng.below(3) as u32),
        5 => (-9_223_372_037, 145_224_192 + rng.below(3) as u32),
        6 => (0, rng.below(3) as u32),
        // a leap second (23:59:60.x): chrono carries it as nanoseconds >= 10^9 on second 59
        7 => (60 * (rng.below(30_000_000) as i64) + 59, 1_000_000_000 + rng.below(1_000_000_000) as u32),
        _ => (rng.below(2_000_000_000) as i64, 0),
    }
}
fn rand_phi(rng: &mut Rng) -> f64 {
    let two24 = 16_777_216.0f64;
    match rng.below(7) {
        0 => [0.65, 0.2, 0.05, 0.123, 1.0, 0.0, 0.5][rng.below(7) as usize],
        // exactly on a k/2^24 boundary
        1 => rng.below(1 << 24) as f64 / two24,
        // exactly half-way (tie) between two fixed-point values
        2 => (rng.below(1 << 24) as f64 + 0.5) / two24,
        // one ulp around a boundary / a tie
        3 => {
            let x = rng.below(1 << 24) as f64 / two24;
            if rng.coin() { f64::from_bits(x.to_bits() + 1) } else { f64::from_bits(x.to_bits().saturating_sub(1)) }
        }
        4 => {
            let x = (rng.below(1 << 24) as f64 + 0.5) / two24;
            if rng.coin() { f64::from_bits(x.to_bits() + 1) } else { f64::from_bits(x.to_bits() - 1) }
        }
        5 => (rng.next() >> 11) as f64 / (1u64 << 53) as f64,
        _ => rng.below(256) as f64 + rng.below(1 << 24) as f64 / two24,
    }
}
fn rand_set(rng: &mut Rng) -> Set {
    let e = rand_u64(rng);
    match rng.below(5) {
        0 => Set::Msd(e),
        1 => Set::Csd(e),
        2 => Set::Cdb(e, rand_u64(rng)),
        3 => Set::Ctx(e, rand_u64(rng)),
        _ => Set::Cbtx(e, rand_u64(rng), rand_u64(rng)),
    }
}
/// signer lists as the type allows them: any order, party ids repeated, zero stakes, empty ids
fn rand_signers(rng: &mut Rng) -> Vec<(String, u64)> {
    let n = rng.below(7);
    let mut v: Vec<(String, u64)> = (0..n)
        .map(|i| {
            let pid = match rng.below(4) {
                0 => format!("pool1{}", rand_hexstr(rng, 4)),
                1 => format!("{}", i),
                2 => rand_word(rng),
                _ => rand_hexstr(rng, 28),
            };
            (pid, if rng.chance(1, 8) { 0 } else { rand_u64(rng) })
        })
        .collect();
    if v.len() >= 2 && rng.chance(1, 3) {
        // a repeated entry: exact copy, or the same party id with another stake
        let i = rng.below(v.len() as u64) as usize;
        let mut e = v[i].clone();
        if rng.coin() {
            e.1 = rand_u64(rng);
        }
        let at = rng.below(v.len() as u64 + 1) as usize;
        v.insert(at, e);
    }
    v
}
/// honest protocol message: hex digests, decimal numbers, hex-encoded keys
fn rand_pm(rng: &mut Rng, all_keys: bool) -> BTreeMap<usize, String> {
    let mut m = BTreeMap::new();
    for k in 0..KEYS.len() {
        if all_keys || rng.chance(1, 3) {
            let v = match k {
                5 | 6 | 7 | 8 => format!("{}", rand_u64(rng)),
                3 | 11 => { let n = rng.range(0, 40) as usize; rand_hexstr(rng, n) }
                _ => if rng.chance(1, 10) { String::new() } else { rand_hexstr(rng, 32) },
            };
            m.insert(k, v);
        }
    }
    m
}
fn rand_avk(rng: &mut Rng) -> Avk {
    let mut a = Avk::fake(rng.below(3) as usize);
    if rng.chance(1, 3) {
        a.root = rng.bytes(32);
    }
    if rng.chance(1, 3) {
        a.nr = rand_u64(rng);
    }
    if rng.chance(1, 3) {
        a.total = rand_u64(rng);
    }
    a
}
fn rand_cert(rng: &mut Rng, genesis: Option<bool>) -> MCert {
    let all = rng.chance(1, 4);
    let pm = rand_pm(rng, all);
    let g = rng.chance(1, 4);
    let sig = if genesis.unwrap_or(g) {
        Sig::Genesis(GSig { base: rng.below(2) as usize, edit: None })
    } else {
        Sig::Multi(rand_set(rng), MSig { base: rng.below(2) as usize, edit: 0 })
    };
    MCert {
        hash: "h".into(),
        prev: match rng.below(6) { 0 => String::new(), 1 => rand_hexstr(rng, 32).to_uppercase(), _ => rand_hexstr(rng, 32) },
        epoch: rand_u64(rng),
        meta: MMeta {
            network: rand_word(rng),
            version: rand_word(rng),
            k: rand_u64(rng),
            m: rand_u64(rng),
            phi: rand_phi(rng),
            init: rand_ts(rng),
            sealed: rand_ts(rng),
            signers: rand_signers(rng),
        },
        signed: if rng.coin() { pm_real(&pm).compute_hash() } else { rand_hexstr(rng, 32) },
        pm,
        avk: rand_avk(rng),
        sig,
    }
}

/// U8F24::from_num as the property's notion of "fixed-point precision", computed independently:
/// scaling by 2^24 is exact in f64 and round_ties_even is exact.
fn fixed_bits(x: f64) -> Option<u64> {
    let r = (x * 16_777_216.0).round_ties_even();
    if r.is_finite() && r >= 0.0 && r < 4_294_967_296.0 { Some(r as u64) } else { None }
}

/// Systematic families of edits of a 64-bit number: neighbours, a low bit, a bit a 32-bit truncation
/// loses, the bit an i64 conversion / saturation touches, a carry into the high half, the byte order.
const U64_KINDS: u64 = 8;
fn u64_edit(kind: u64, rng: &mut Rng, x: u64) -> u64 {
    match kind % U64_KINDS {
        0 => x.wrapping_add(1),
        1 => x.wrapping_sub(1),
        2 => x ^ (1u64 << rng.below(32)),
        3 => x ^ (1u64 << (32 + rng.below(31))),
        4 => x ^ (1u64 << 63),
        5 => x.wrapping_add(1u64 << 32),
        6 => if x.swap_bytes() != x { x.swap_bytes() } else { x ^ 0xff00 },
        _ => {
            let y = rand_u64(rng);
            if y == x { x.wrapping_add(7) } else { y }
        }
    }
}
fn different_u64(rng: &mut Rng, x: u64) -> u64 {
    let k = rng.below(U64_KINDS);
    u64_edit(k, rng, x)
}
/// Systematic families of edits of a string: content, length, letter case, surrounding white space,
/// NUL, leading zero, emptied, doubled.  Always different from `s` (inputs are ASCII).
const STR_KINDS: u64 = 12;
fn str_edit(kind: u64, rng: &mut Rng, s: &str) -> String {
    match kind % STR_KINDS {
        0 => format!("{}x", s),
        1 => if s.is_empty() { "0".into() } else { s[..s.len() - 1].to_string() },
        2 => {
            if s.is_empty() {
                "y".into()
            } else {
                let mut b = s.as_bytes().to_vec();
                let i = rng.below(b.len() as u64) as usize;
                b[i] = if b[i] == b'a' { b'b' } else { b'a' };
                String::from_utf8(b).unwrap_or_else(|_| format!("{}y", s))
            }
        }
        3 => format!("z{}", s),
        4 => {
            let letters: Vec<usize> = s.bytes().enumerate().filter(|(_, c)| c.is_ascii_alphabetic()).map(|(i, _)| i).collect();
            if letters.is_empty() {
                format!("{}A", s)
            } else {
                let mut b = s.as_bytes().to_vec();
                let i = *rng.pick(&letters);
                b[i] ^= 0x20;
                String::from_utf8(b).unwrap()
            }
        }
        5 => format!("{} ", s),
        6 => format!(" {}", s),
        7 => format!("{}\n", s),
        8 => format!("{}\0", s),
        9 => format!("0{}", s),
        10 => if s.is_empty() { "00".into() } else { String::new() },
        _ => if s.is_empty() { "ab".into() } else { format!("{}{}", s, s) },
    }
}
/// Timestamp edits by a number of nanoseconds (result in non-leap representation).
const TS_DELTAS: [i128; 10] = [1, -1, 1_000, -1_000, 1_000_000, -1_000_000_000, 1_000_000_000, 500_000_000, 60_000_000_000, 999];
fn ts_edit(kind: u64, t: Ts) -> Ts {
    ts_of_total(ts_total(t) + TS_DELTAS[(kind % TS_DELTAS.len() as u64) as usize])
}
fn ts_representable(t: Ts) -> bool {
    DateTime::from_timestamp(t.0, t.1).is_some()
}

/// the byte stream `ProtocolMessage::compute_hash` is documented to digest: key name || value in key order
fn pm_preimage(pm: &BTreeMap<usize, String>) -> Vec<u8> {
    let mut v = vec![];
    for (k, val) in pm {
        v.extend_from_slice(KEYS[*k].to_string().as_bytes());
        v.extend_from_slice(val.as_bytes());
    }
    v
}
fn is_honest_value(v: &str) -> bool {
    v.bytes().all(|c| c.is_ascii_digit() || (b'a'..=b'f').contains(&c))
}
/// what the property says about two protocol messages: honest-grammar messages that differ must differ
/// in digest; so must any two messages whose digested byte streams differ (SHA-256 has no known
/// collision); messages outside the grammar with the same stream are not judged
fn pm_expect(a: &BTreeMap<usize, String>, b: &BTreeMap<usize, String>) -> Expect {
    if a == b {
        Expect::Same
    } else if pm_preimage(a) != pm_preimage(b) || (a.values().all(|v| is_honest_value(v)) && b.values().all(|v| is_honest_value(v))) {
        Expect::Differ
    } else {
        Expect::Unjudged
    }
}

/// move the last decimal digit of `a` in front of `b`: the decimal renderings concatenate identically
fn digit_shift(a: u64, b: u64) -> Option<(u64, u64)> {
    let (sa, sb) = (a.to_string(), b.to_string());
    if sa.len() < 2 || sa.ends_with('0') {
        return None;
    }
    let a2: u64 = sa[..sa.len() - 1].parse().ok()?;
    let b2: u64 = format!("{}{}", &sa[sa.len() - 1..], sb).parse().ok()?;
    Some((a2, b2))
}
/// the numbers carried by a signed entity type, and the same variant over other numbers
fn set_numbers(t: &Set) -> Vec<u64> {
    match *t {
        Set::Msd(e) | Set::Csd(e) => vec![e],
        Set::Cdb(e, i) | Set::Ctx(e, i) => vec![e, i],
        Set::Cbtx(e, b, o) => vec![e, b, o],
    }
}
fn set_with(t: &Set, n: &[u64]) -> Set {
    match t {
        Set::Msd(_) => Set::Msd(n[0]),
        Set::Csd(_) => Set::Csd(n[0]),
        Set::Cdb(..) => Set::Cdb(n[0], n[1]),
        Set::Ctx(..) => Set::Ctx(n[0], n[1]),
        Set::Cbtx(..) => Set::Cbtx(n[0], n[1], n[2]),
    }
}
/// edits of the numbers under the same variant: each position by a u64 family, exchanges, decimal
/// digit moved across a boundary, sum-preserving shifts
fn set_number_edits(rng: &mut Rng, t: &Set, round: u64) -> Vec<Set> {
    let n = set_numbers(t);
    let mut out = vec![];
    for p in 0..n.len() {
        for j in 0..2u64 {
            let mut m = n.clone();
            m[p] = u64_edit(round + p as u64 + 4 * j, rng, m[p]);
            out.push(set_with(t, &m));
        }
    }
    for p in 0..n.len().saturating_sub(1) {
        let mut m = n.clone();
        m.swap(p, p + 1);
        out.push(set_with(t, &m));
        if let Some((a, b)) = digit_shift(n[p], n[p + 1]) {
            let mut m = n.clone();
            m[p] = a;
            m[p + 1] = b;
            out.push(set_with(t, &m));
        }
        let mut m = n.clone();
        m[p] = m[p].wrapping_add(1);
        m[p + 1] = m[p + 1].wrapping_sub(1);
        out.push(set_with(t, &m));
        let mut m = n.clone();
        m[p] = n[p] ^ 0x5a;
        m[p + 1] = n[p + 1] ^ 0x5a;
        out.push(set_with(t, &m));
    }
    out.retain(|x| x != t);
    out
}

/// single-field variants of `base` (each with what the property expects), plus probes.
/// `round` rotates the systematic edit families so that over the batches of a run every
/// (field, family) pair occurs.
fn variants(rng: &mut Rng, base: &MCert, round: u64) -> Vec<(Vec<Mut>, Expect, String)> {
    let mut v: Vec<(Vec<Mut>, Expect, String)> = vec![(vec![], Expect::Same, "identity".into())];

    // ---- probes outside the single-field quantifier (model faithfulness only) ----
    // network / version boundary shift: same byte stream
    let nv = format!("{}{}", base.meta.network, base.meta.version);
    if nv.is_ascii() {
        let cut = rng.below(nv.len() as u64 + 1) as usize;
        v.push((
            vec![Mut::Network(nv[..cut].to_string()), Mut::Version(nv[cut..].to_string())],
            Expect::Unjudged,
            "network/version boundary".into(),
        ));
    }
    // two fields edited at once
    v.push((
        vec![Mut::Epoch(different_u64(rng, base.epoch)), Mut::K(different_u64(rng, base.meta.k))],
        Expect::Unjudged,
        "two fields".into(),
    ));
    // the two timestamps exchanged
    v.push((vec![Mut::Init(base.meta.sealed), Mut::Sealed(base.meta.init)], Expect::Unjudged, "timestamps exchanged".into()));
    // timestamps outside i64 nanoseconds: outside the quantifier (both clamp to 0)
    v.push((vec![Mut::Init((20_000_000_000 + rng.below(1000) as i64, 5))], Expect::Unjudged, "initiated_at out of range".into()));
    v.push((vec![Mut::Sealed((-20_000_000_000, 7))], Expect::Unjudged, "sealed_at out of range".into()));
    // a leap second and the first second of the next minute with the same fraction: two different
    // chrono values (and RFC 3339 texts) with the same number of nanoseconds since the epoch
    {
        let s59 = 60 * (rng.below(30_000_000) as i64) + 59;
        let f = rng.below(1_000_000_000) as u32;
        v.push((vec![Mut::Sealed((s59, 1_000_000_000 + f))], Expect::Unjudged, "sealed_at leap second".into()));
        v.push((vec![Mut::Sealed((s59 + 1, f))], Expect::Unjudged, "sealed_at leap second alias".into()));
    }

    let mut one = |m: Mut, e: Expect| {
        let n = m.name().to_string();
        v.push((vec![m], e, n))
    };
    // ---- strings: two edit families each, rotating ----
    for j in 0..2u64 {
        one(Mut::Prev(str_edit(round + 6 * j, rng, &base.prev)), Expect::Differ);
        one(Mut::Network(str_edit(round + 1 + 6 * j, rng, &base.meta.network)), Expect::Differ);
        one(Mut::Version(str_edit(round + 2 + 6 * j, rng, &base.meta.version)), Expect::Differ);
        one(Mut::Signed(str_edit(round + 3 + 6 * j, rng, &base.signed)), Expect::Differ);
    }
    // ---- numbers: two edit families each, rotating ----
    for j in 0..2u64 {
        one(Mut::Epoch(u64_edit(round + 4 * j, rng, base.epoch)), Expect::Differ);
        one(Mut::K(u64_edit(round + 1 + 4 * j, rng, base.meta.k)), Expect::Differ);
        one(Mut::M(u64_edit(round + 2 + 4 * j, rng, base.meta.m)), Expect::Differ);
    }
    // phi_f: judged at fixed-point precision
    for _ in 0..3 {
        let p = match rng.below(4) {
            0 => base.meta.phi + 1.0 / 16_777_216.0,
            1 => f64::from_bits(base.meta.phi.to_bits() + 1),
            2 => base.meta.phi + 1.0 / 1_073_741_824.0,
            _ => rand_phi(rng),
        };
        let e = match (fixed_bits(base.meta.phi), fixed_bits(p)) {
            (Some(a), Some(b)) if a == b => Expect::Same,
            (Some(_), Some(_)) => Expect::Differ,
            _ => Expect::Unjudged,
        };
        one(Mut::Phi(p), e);
    }
    // ---- timestamps: three nanosecond deltas each, rotating ----
    for which in 0..2u64 {
        let t0 = if which == 0 { base.meta.init } else { base.meta.sealed };
        for j in 0..3u64 {
            let t = ts_edit(round + which + 3 * j, t0);
            if !ts_representable(t) {
                continue;
            }
            let e = if ts_in_i64(t0) && ts_in_i64(t) { Expect::Differ } else { Expect::Unjudged };
            one(if which == 0 { Mut::Init(t) } else { Mut::Sealed(t) }, e);
        }
    }
    // ---- signers: the list is hashed as carried (order, repetitions, every entry) ----
    {
        let s = &base.meta.signers;
        let mut lists: Vec<Vec<(String, u64)>> = vec![];
        let mut s1 = s.clone();
        if s1.is_empty() {
            s1.push(("p".into(), 1));
        } else {
            let i = rng.below(s1.len() as u64) as usize;
            s1[i].1 = u64_edit(round + 3, rng, s1[i].1);
        }
        lists.push(s1);
        let mut s2 = s.clone();
        if s2.is_empty() {
            s2.push(("q".into(), 0));
        } else {
            let i = rng.below(s2.len() as u64) as usize;
            s2[i].0 = str_edit(round + 4, rng, &s2[i].0);
        }
        lists.push(s2);
        if s.len() >= 2 {
            let mut x = s.clone();
            x.swap(0, 1);
            lists.push(x);
            let mut x = s.clone();
            x.swap(0, s.len() - 1);
            lists.push(x);
            let mut x = s.clone();
            x.reverse();
            lists.push(x);
            let mut x = s.clone();
            x.rotate_left(1);
            lists.push(x);
            let mut x = s.clone();
            x.sort();
            lists.push(x);
            // stakes exchanged between two parties
            let mut x = s.clone();
            let (a, b) = (x[0].1, x[1].1);
            x[0].1 = b;
            x[1].1 = a;
            lists.push(x);
        }
        let fresh = (rand_hexstr(rng, 3), rand_u64(rng));
        let mut x = s.clone();
        x.push(fresh.clone());
        lists.push(x);
        let mut x = s.clone();
        x.insert(0, fresh);
        lists.push(x);
        let mut x = s.clone();
        x.push((rand_hexstr(rng, 3), 0));
        lists.push(x);
        let mut x = s.clone();
        x.push((String::new(), rand_u64(rng)));
        lists.push(x);
        if !s.is_empty() {
            let i = rng.below(s.len() as u64) as usize;
            // an exact copy of an entry: at the end, next to the original, at the front
            let mut x = s.clone();
            x.push(s[i].clone());
            lists.push(x);
            let mut x = s.clone();
            x.insert(i, s[i].clone());
            lists.push(x);
            let mut x = s.clone();
            x.insert(0, s[i].clone());
            lists.push(x);
            // the same party id with another stake: before (shadowed) and after (shadowing)
            let other = (s[i].0.clone(), u64_edit(round + 5, rng, s[i].1));
            let mut x = s.clone();
            x.insert(0, other.clone());
            lists.push(x);
            let mut x = s.clone();
            x.push(other);
            lists.push(x);
            // removals
            let mut x = s.clone();
            x.remove(0);
            lists.push(x);
            let mut x = s.clone();
            x.pop();
            lists.push(x);
            let mut x = s.clone();
            x.remove(s.len() / 2);
            lists.push(x);
            lists.push(vec![]);
            let mut x = s.clone();
            x.dedup();
            lists.push(x);
            let mut x = s.clone();
            x.dedup_by(|a, b| a.0 == b.0);
            lists.push(x);
        }
        let mut seen: Vec<Vec<(String, u64)>> = vec![];
        for l in lists {
            if &l != s && !seen.contains(&l) {
                seen.push(l.clone());
                one(Mut::Signers(l), Expect::Differ);
            }
        }
    }
    // ---- protocol message: value edits, entries added / removed / exchanged, empty values ----
    {
        let mut pms: Vec<BTreeMap<usize, String>> = vec![];
        let keys: Vec<usize> = base.pm.keys().cloned().collect();
        if !keys.is_empty() {
            for j in 0..3u64 {
                let k = keys[rng.below(keys.len() as u64) as usize];
                let mut p = base.pm.clone();
                let old = p[&k].clone();
                let newv = match j {
                    0 => {
                        if old.chars().all(|c| c.is_ascii_digit()) && !old.is_empty() {
                            format!("{}", different_u64(rng, old.parse::<u64>().unwrap_or(0)))
                        } else {
                            let mut x = rand_hexstr(rng, old.len() / 2);
                            if x == old { x.push_str("00") }
                            x
                        }
                    }
                    _ => str_edit(round + 5 * j, rng, &old),
                };
                p.insert(k, newv);
                pms.push(p);
            }
            // a value emptied (the entry stays) / the entry dropped
            let k = keys[rng.below(keys.len() as u64) as usize];
            let mut p = base.pm.clone();
            p.insert(k, String::new());
            pms.push(p);
            let mut p = base.pm.clone();
            p.remove(&k);
            pms.push(p);
            let mut p = base.pm.clone();
            p.remove(&keys[0]);
            pms.push(p);
        }
        if keys.len() >= 2 {
            let mut p = base.pm.clone();
            let (a, b) = (p[&keys[0]].clone(), p[&keys[1]].clone());
            p.insert(keys[0], b);
            p.insert(keys[1], a);
            pms.push(p);
        }
        let missing: Vec<usize> = (0..KEYS.len()).filter(|k| !base.pm.contains_key(k)).collect();
        if !missing.is_empty() {
            let mut p = base.pm.clone();
            p.insert(*rng.pick(&missing), rand_hexstr(rng, 8));
            pms.push(p);
            let mut p = base.pm.clone();
            p.insert(*rng.pick(&missing), String::new());
            pms.push(p);
        }
        for p in pms {
            let e = pm_expect(&base.pm, &p);
            if e != Expect::Same {
                one(Mut::Pm(p), e);
            }
        }
    }
    // ---- aggregate verification key: every component ----
    {
        let a = &base.avk;
        let mut x = Avk::fake((rng.below(3)) as usize);
        if &x == a {
            x.total = x.total.wrapping_add(1);
        }
        one(Mut::Avk(x), Expect::Differ);
        for pos in [0usize, 31, rng.below(32) as usize] {
            let mut x = a.clone();
            x.root[pos] ^= 1u8 << rng.below(8);
            one(Mut::Avk(x), Expect::Differ);
        }
        for j in 0..2u64 {
            let mut x = a.clone();
            x.nr = u64_edit(round + 4 * j, rng, x.nr);
            one(Mut::Avk(x), Expect::Differ);
            let mut x = a.clone();
            x.total = u64_edit(round + 2 + 4 * j, rng, x.total);
            one(Mut::Avk(x), Expect::Differ);
        }
        // number of leaves and total stake exchanged
        if a.nr != a.total {
            let mut x = a.clone();
            x.nr = a.total;
            x.total = a.nr;
            one(Mut::Avk(x), Expect::Differ);
        }
    }
    // ---- signature: value (component by component), kind, entity type (outside the known class) ----
    match &base.sig {
        Sig::Genesis(g) => {
            one(Mut::Sig(Sig::Genesis(GSig { base: 1 - g.base, edit: None })), Expect::Differ);
            for pos in [0usize, 31, 32, 63, rng.below(64) as usize] {
                let old = g.bytes()[pos];
                let x = GSig { base: g.base, edit: Some((pos, old ^ (1u8 << rng.below(8)))) };
                if x.usable() {
                    one(Mut::Sig(Sig::Genesis(x)), Expect::Differ);
                }
            }
            one(Mut::Sig(Sig::Multi(rand_set(rng), MSig { base: 0, edit: 0 })), Expect::Differ);
            one(Mut::Sig(Sig::Multi(Set::Msd(base.epoch), MSig { base: 1, edit: 0 })), Expect::Differ);
        }
        Sig::Multi(t, ms) => {
            one(Mut::Sig(Sig::Multi(t.clone(), MSig { base: 1 - ms.base, edit: 0 })), Expect::Differ);
            for e in 1..=MSIG_EDITS {
                let x = MSig { base: ms.base, edit: e };
                if x.usable() {
                    one(Mut::Sig(Sig::Multi(t.clone(), x)), Expect::Differ);
                }
            }
            one(Mut::Sig(Sig::Genesis(GSig { base: 0, edit: None })), Expect::Differ);
            let mut sets: Vec<Set> = set_number_edits(rng, t, round);
            // another variant over the same numbers where the shapes allow (outside the known class)
            sets.push(match t {
                Set::Msd(e) | Set::Csd(e) => Set::Cdb(*e, rand_u64(rng)),
                Set::Cdb(e, i) | Set::Ctx(e, i) => Set::Cbtx(*e, *i, rand_u64(rng)),
                Set::Cbtx(e, b, _) => Set::Ctx(*e, *b),
            });
            sets.push(match t {
                Set::Msd(e) | Set::Csd(e) => Set::Ctx(*e, 0),
                Set::Cdb(e, i) | Set::Ctx(e, i) => Set::Cbtx(*e, *i, 0),
                Set::Cbtx(e, b, _) => Set::Cdb(*e, *b),
            });
            sets.push(rand_set(rng));
            for t2 in sets {
                if &t2 != t && t.twin().as_ref() != Some(&t2) {
                    one(Mut::Sig(Sig::Multi(t2, ms.clone())), Expect::Differ);
                }
            }
        }
    }
    v
}

fn pattern(hs: &[String]) -> Vec<u64> {
    let mut seen: Vec<&String> = vec![];
    hs.iter()
        .map(|h| match seen.iter().position(|s| *s == h) {
            Some(i) => i as u64,
            None => {
                seen.push(h);
                (seen.len() - 1) as u64
            }
        })
        .collect()
}
/// outcome classes (0 ok, 1 err, 2 panic) + equality pattern of the Ok values, as `hash_obs`
fn hash_obs(rs: &[Option<Result<String, ()>>]) -> String {
    let classes: Vec<u64> = rs.iter().map(|r| match r { Some(Ok(_)) => 0, Some(Err(_)) => 1, None => 2 }).collect();
    let oks: Vec<String> = rs.iter().filter_map(|r| match r { Some(Ok(h)) => Some(h.clone()), _ => None }).collect();
    coq::ol(&[coq::oln(&classes), coq::oln(&pattern(&oks))])
}
fn cert_hash(c: &MCert) -> Option<Result<String, ()>> {
    let c = c.clone();
    hc::catch(move || c.real().try_compute_hash().map_err(|_| ()))
}

fn judge_batch(base: &Option<Result<String, ()>>, outs: &[(Option<Result<String, ()>>, Expect, String)]) -> (Option<bool>, Option<String>, Option<String>) {
    let Some(Ok(hb)) = base else { return (None, None, None) };
    let mut known = false;
    for (o, e, name) in outs {
        let Some(Ok(h)) = o else { continue };
        match e {
            Expect::Differ if h == hb => {
                return (Some(false), Some(format!("changing only `{}` left the certificate hash unchanged ({})", name, h)), None)
            }
            Expect::Same if h != hb => {
                return (Some(false), Some(format!("variant `{}` equal as the hash sees it, yet the hash changed", name)), None)
            }
            Expect::KnownCollision if h == hb => known = true,
            _ => {}
        }
    }
    if known {
        return (
            Some(false),
            Some("two certificates differing only in the signed entity type (same beacon numbers) have the same hash".into()),
            Some(KNOWN_SET.into()),
        );
    }
    (Some(true), None, None)
}

// ---------------------------------------------------------------- JSON text perturbation

fn json_ws(rng: &mut Rng) -> &'static str {
    ["", "", " ", "\n", "  ", "\t", "\r\n "][rng.below(7) as usize]
}
/// a JSON string literal; now and then a character is written as a \uXXXX escape (and '/' as "\/")
fn json_string(rng: &mut Rng, s: &str) -> String {
    let mut out = String::from("\"");
    for c in s.chars() {
        if (c as u32) < 0x10000 && rng.chance(1, 24) {
            out.push_str(&format!("\\u{:04x}", c as u32));
        } else if c == '/' && rng.coin() {
            out.push_str("\\/");
        } else {
            let q = serde_json::to_string(&c.to_string()).unwrap();
            out.push_str(&q[1..q.len() - 1]);
        }
    }
    out.push('"');
    out
}
/// the same instant in another RFC 3339 spelling: +00:00, nine fraction digits, a whole-hour offset
fn respell_timestamp(rng: &mut Rng, s: &str) -> String {
    use chrono::{FixedOffset, SecondsFormat};
    let Ok(dt) = DateTime::parse_from_rfc3339(s) else { return s.to_string() };
    match rng.below(6) {
        0 if s.ends_with('Z') => format!("{}+00:00", &s[..s.len() - 1]),
        1 => dt.with_timezone(&Utc).to_rfc3339_opts(SecondsFormat::Nanos, true),
        2 => dt.with_timezone(&FixedOffset::east_opt(2 * 3600).unwrap()).to_rfc3339_opts(SecondsFormat::Nanos, false),
        3 => dt.with_timezone(&FixedOffset::west_opt(5 * 3600).unwrap()).to_rfc3339_opts(SecondsFormat::AutoSi, false),
        _ => s.to_string(),
    }
}
/// re-print a JSON value with shuffled object keys, random whitespace, escapes inside strings, alternative
/// number text for floats (exponent notation, trailing zeros), other spellings of the timestamps, the
/// default `hash_scheme` written out, absent optional fields written as null, unknown fields added
fn perturb(rng: &mut Rng, v: &serde_json::Value, key: &str) -> String {
    use serde_json::Value as V;
    match v {
        V::Null => "null".into(),
        V::Bool(b) => b.to_string(),
        V::Number(n) => {
            if n.is_f64() {
                let x = n.as_f64().unwrap();
                match rng.below(4) {
                    0 => format!("{:e}", x),
                    1 => format!("{:E}", x).replace('E', "E+").replace("E+-", "E-"),
                    2 => {
                        let s = n.to_string();
                        if s.contains('e') || s.contains('E') { s } else if s.contains('.') { format!("{}000", s) } else { format!("{}.0", s) }
                    }
                    _ => n.to_string(),
                }
            } else {
                n.to_string()
            }
        }
        V::String(s) => {
            if key == "initiated_at" || key == "sealed_at" {
                let t = respell_timestamp(rng, s);
                json_string(rng, &t)
            } else {
                json_string(rng, s)
            }
        }
        V::Array(a) => {
            let items: Vec<String> = a.iter().map(|x| format!("{}{}{}", json_ws(rng), perturb(rng, x, ""), json_ws(rng))).collect();
            format!("[{}]", items.join(","))
        }
        V::Object(o) => {
            let mut o = o.clone();
            if key == "protocol_message" && !o.contains_key("hash_scheme") && rng.coin() {
                o.insert("hash_scheme".into(), V::String("legacy".into()));
            }
            if key == "" && o.contains_key("signed_message") {
                // top level of the certificate message
                for opt in ["ancillary_prover_data", "ancillary_verifier_data"] {
                    if !o.contains_key(opt) && rng.chance(1, 3) {
                        o.insert(opt.into(), V::Null);
                    }
                }
                if rng.chance(1, 3) {
                    o.insert("x_future_field".into(), serde_json::json!([1, {"a": null}, "z"]));
                }
            }
            if key == "metadata" && rng.chance(1, 3) {
                o.insert("x_future_field".into(), serde_json::json!({"n": 1.5}));
            }
            let mut keys: Vec<&String> = o.keys().collect();
            rng.shuffle(&mut keys);
            let items: Vec<String> = keys
                .iter()
                .map(|k| format!("{}{}{}:{}{}{}", json_ws(rng), json_string(rng, k), json_ws(rng), json_ws(rng), perturb(rng, &o[*k], k), json_ws(rng)))
                .collect();
            format!("{{{}}}", items.join(","))
        }
    }
}

/// the values a certificate holds, printed as C04.Model.value_obs prints them
fn value_obs(c: &Certificate) -> String {
    let set = match c.signed_entity_type() {
        SignedEntityType::MithrilStakeDistribution(e) => vec![0, *e],
        SignedEntityType::CardanoStakeDistribution(e) => vec![1, *e],
        SignedEntityType::CardanoDatabase(b) => vec![2, *b.epoch, b.immutable_file_number],
        SignedEntityType::CardanoTransactions(e, b) => vec![3, *e, *b],
        SignedEntityType::CardanoBlocksTransactions(e, b, o) => vec![4, *e, *b, *o],
    };
    let nanos = |t: &DateTime<Utc>| -> i128 {
        let n = t.timestamp() as i128 * 1_000_000_000 + t.timestamp_subsec_nanos() as i128;
        if n >= i64::MIN as i128 && n <= i64::MAX as i128 { n } else { 0 }
    };
    let p = c.metadata.protocol_parameters.clone();
    let fixed = hc::catch(move || p.phi_f_fixed().to_bits() as u64);
    let bytes = |s: &str| format!("(OLN {})", hxb(s.as_bytes()));
    coq::ol(&[
        coq::ob(c.is_genesis()),
        coq::oln(&set),
        coq::on(*c.epoch),
        bytes(&c.metadata.network),
        bytes(&c.metadata.protocol_version),
        coq::on(c.metadata.protocol_parameters.k),
        coq::on(c.metadata.protocol_parameters.m),
        match fixed { Some(b) => coq::ores_ok(coq::on(b)), None => coq::ores_panic() },
        coq::oz(nanos(&c.metadata.initiated_at)),
        coq::oz(nanos(&c.metadata.sealed_at)),
        coq::ol(&c.metadata.signers.iter().map(|s| coq::ol(&[bytes(&s.party_id), coq::on(s.stake)])).collect::<Vec<_>>()),
    ])
}
/// field-by-field comparison of a certificate with the description it was built from (provenance);
/// protocol parameters at fixed point.  Returns the first difference.
fn differs_from(mc: &MCert, c: &Certificate) -> Option<String> {
    let sig_text = |c: &Certificate| -> String {
        match &c.signature {
            CertificateSignature::GenesisSignature(s) => format!("genesis:{}", s.to_bytes_hex().unwrap_or_default()),
            CertificateSignature::MultiSignature(t, s) => format!("multi:{:?}:{}", t, s.to_json_hex().unwrap_or_default()),
        }
    };
    let orig = mc.real();
    let checks: Vec<(&str, bool)> = vec![
        ("hash", orig.hash == c.hash),
        ("previous_hash", orig.previous_hash == c.previous_hash),
        ("epoch", orig.epoch == c.epoch),
        ("network", orig.metadata.network == c.metadata.network),
        ("protocol_version", orig.metadata.protocol_version == c.metadata.protocol_version),
        ("k", orig.metadata.protocol_parameters.k == c.metadata.protocol_parameters.k),
        ("m", orig.metadata.protocol_parameters.m == c.metadata.protocol_parameters.m),
        ("phi_f (fixed point)", fixed_bits(orig.metadata.protocol_parameters.phi_f) == fixed_bits(c.metadata.protocol_parameters.phi_f)),
        ("initiated_at", orig.metadata.initiated_at == c.metadata.initiated_at),
        ("sealed_at", orig.metadata.sealed_at == c.metadata.sealed_at),
        ("signers", orig.metadata.signers == c.metadata.signers),
        ("protocol_message", orig.protocol_message == c.protocol_message),
        ("signed_message", orig.signed_message == c.signed_message),
        ("aggregate_verification_key", orig.aggregate_verification_key.to_json_hex().ok() == c.aggregate_verification_key.to_json_hex().ok()),
        ("signature / signed entity type", sig_text(&orig) == sig_text(c)),
    ];
    checks.iter().find(|(_, ok)| !ok).map(|(n, _)| n.to_string())
}

struct MapRetriever(HashMap<String, Certificate>);
#[async_trait::async_trait]
impl CertificateRetriever for MapRetriever {
    async fn get_certificate_details(&self, h: &str) -> Result<Certificate, CertificateRetrieverError> {
        self.0.get(h).cloned().ok_or_else(|| CertificateRetrieverError(anyhow::anyhow!("not found")))
    }
}

/// emit one base with a list of variants as cases of at most `CHUNK` variants (the identity variant
/// leads every case, so that every case holds the base hash)
const CHUNK: usize = 24;
fn emit_batches(sink: &mut Sink, kind: &str, base: &MCert, vs: &[(Vec<Mut>, Expect, String)], key_prefix: &str) {
    let rest: Vec<&(Vec<Mut>, Expect, String)> = vs.iter().skip(1).collect();
    let chunks: Vec<Vec<&(Vec<Mut>, Expect, String)>> = if rest.is_empty() { vec![vec![]] } else { rest.chunks(CHUNK).map(|c| c.to_vec()).collect() };
    for (ci, chunk) in chunks.iter().enumerate() {
        let Some(id) = sink.wants() else { continue };
        let mut part: Vec<&(Vec<Mut>, Expect, String)> = vec![&vs[0]];
        part.extend(chunk.iter().cloned());
        let hb = cert_hash(base);
        let outs: Vec<(Option<Result<String, ()>>, Expect, String)> = part
            .iter()
            .map(|(ms, e, n)| {
                let mut c = base.clone();
                for m in ms {
                    c = c.apply(m);
                }
                (cert_hash(&c), *e, n.clone())
            })
            .collect();
        let (holds, why, known) = judge_batch(&hb, &outs);
        let model = format!(
            "run_batch {} {}",
            base.coq(),
            coq::list(&part.iter().map(|(ms, _, _)| coq::list(&ms.iter().map(|m| m.coq()).collect::<Vec<_>>())).collect::<Vec<_>>())
        );
        let n_differ = outs.iter().filter(|o| o.1 == Expect::Differ).count();
        sink.push(Case {
            id,
            kind: kind.to_string(),
            desc: serde_json::json!({"base": format!("{:?}", base), "part": ci, "variants": part.iter().map(|(ms,e,n)| format!("{} {:?} {:?}", n, e, ms)).collect::<Vec<_>>()}),
            model: Some(share(model)),
            impl_obs: hash_obs(&outs.iter().map(|o| o.0.clone()).collect::<Vec<_>>()),
            holds,
            why,
            known,
            nontrivial: n_differ >= 10 && matches!(hb, Some(Ok(_))),
            key: format!("{}{}/{:?}", key_prefix, ci, base),
        });
    }
}

fn main() {
    let args = hc::parse_args();
    let mut rng = Rng::new(args.seed);
    let mut sink = Sink::new(&args);
    let (n_batches, n_set, n_ent, n_pm, n_rt, n_chain_rt) = if args.thorough { (96, 40, 40, 120, 400, 2) } else { (16, 6, 8, 12, 48, 1) };

    // ---- 1. certificate batches: single-field edits, systematic families rotating with the batch number ----
    for i in 0..n_batches {
        let mut r = rng.fork();
        // every fourth base is a genesis certificate
        let base = rand_cert(&mut r, Some(i % 4 == 1));
        let vs = variants(&mut r, &base, i as u64);
        let kind = format!("cert-single-field/{}", if matches!(base.sig, Sig::Genesis(_)) { "genesis" } else { "standard" });
        emit_batches(&mut sink, &kind, &base, &vs, "b");
    }

    // ---- 2. the known class: entity types sharing beacon numbers ----
    for i in 0..n_set {
        let mut r = rng.fork();
        let Some(id) = sink.wants() else { continue };
        let mut base = rand_cert(&mut r, Some(false));
        let t = loop {
            let t = rand_set(&mut r);
            if i % 3 == 2 || t.twin().is_some() { break t }
        };
        let ms0 = MSig { base: 0, edit: 0 };
        base.sig = Sig::Multi(t.clone(), ms0.clone());
        let mut vs: Vec<(Vec<Mut>, Expect, String)> = vec![];
        match t.twin() {
            Some(tw) => vs.push((vec![Mut::Sig(Sig::Multi(tw, ms0.clone()))], Expect::KnownCollision, "signed_entity_type twin".into())),
            None => {
                // CardanoBlocksTransactions feeds its index: every other variant must differ
                if let Set::Cbtx(e, b, _) = t {
                    vs.push((vec![Mut::Sig(Sig::Multi(Set::Ctx(e, b), ms0.clone()))], Expect::Differ, "signed_entity_type".into()));
                    vs.push((vec![Mut::Sig(Sig::Multi(Set::Cdb(e, b), ms0.clone()))], Expect::Differ, "signed_entity_type".into()));
                }
            }
        }
        let hb = cert_hash(&base);
        let outs: Vec<_> = vs.iter().map(|(ms, e, n)| (cert_hash(&base.apply(&ms[0])), *e, n.clone())).collect();
        let (holds, why, known) = judge_batch(&hb, &outs);
        let mut all = vec![hb.clone()];
        all.extend(outs.iter().map(|o| o.0.clone()));
        let mut variants_coq = vec!["[]".to_string()];
        variants_coq.extend(vs.iter().map(|(ms, _, _)| coq::list(&[ms[0].coq()])));
        sink.push(Case {
            id,
            kind: if t.twin().is_some() { "entity-type-twin".into() } else { "entity-type-cbtx".into() },
            desc: serde_json::json!({"base": format!("{:?}", base), "variants": vs.iter().map(|(ms,e,_)| format!("{:?} {:?}", e, ms)).collect::<Vec<_>>()}),
            model: Some(share(format!("run_batch {} {}", base.coq(), coq::list(&variants_coq)))),
            impl_obs: hash_obs(&all),
            holds,
            why,
            known,
            nontrivial: true,
            key: format!("{:?}", base.sig),
        });
    }

    // ---- 2b. entity-type numbers next to each other: every variant in turn over small and large numbers,
    //      each position edited alone, exchanged, a decimal digit moved across the boundary, sum kept ----
    for i in 0..n_ent {
        let mut r = rng.fork();
        let mut base = rand_cert(&mut r, Some(false));
        let small = |r: &mut Rng| if r.coin() { 11 + r.below(1_000_000) } else { rand_u64(r) };
        let (a, b, c) = (small(&mut r), small(&mut r), small(&mut r));
        let t = match i % 5 {
            0 => Set::Ctx(a, b),
            1 => Set::Cdb(a, b),
            2 => Set::Cbtx(a, b, c),
            3 => Set::Csd(a),
            _ => Set::Msd(a),
        };
        let ms0 = MSig { base: (i % 2) as usize, edit: 0 };
        base.sig = Sig::Multi(t.clone(), ms0.clone());
        let mut vs: Vec<(Vec<Mut>, Expect, String)> = vec![(vec![], Expect::Same, "identity".into())];
        for round in 0..4u64 {
            for t2 in set_number_edits(&mut r, &t, i as u64 + 2 * round) {
                if t.twin().as_ref() != Some(&t2) && !vs.iter().any(|(m, _, _)| matches!(m.first(), Some(Mut::Sig(Sig::Multi(x, _))) if x == &t2)) {
                    vs.push((vec![Mut::Sig(Sig::Multi(t2, ms0.clone()))], Expect::Differ, "signed_entity_type numbers".into()));
                }
            }
        }
        // the epoch of the certificate and the epoch of the entity type are separate fields
        vs.push((vec![Mut::Epoch(set_numbers(&t)[0])], if set_numbers(&t)[0] != base.epoch { Expect::Differ } else { Expect::Same }, "epoch".into()));
        emit_batches(&mut sink, "entity-type-numbers", &base, &vs, "e");
    }

    // ---- 3. protocol messages ----
    for i in 0..n_pm {
        let mut r = rng.fork();
        let Some(id) = sink.wants() else { continue };
        let base = rand_pm(&mut r, i % 3 == 0);
        let mut ms: Vec<BTreeMap<usize, String>> = vec![base.clone()];
        let keys: Vec<usize> = base.keys().cloned().collect();
        // single edits of every entry: honest value edit, any-byte edit (rotating family), emptied, dropped
        for (ki, k) in keys.iter().enumerate() {
            let mut m = base.clone();
            let old = m[k].clone();
            let newv = if !old.is_empty() && old.chars().all(|c| c.is_ascii_digit()) {
                format!("{}", different_u64(&mut r, old.parse::<u64>().unwrap_or(1)))
            } else {
                format!("{}{}", old, ["0", "a", "f", "00"][r.below(4) as usize])
            };
            m.insert(*k, newv);
            ms.push(m);
            let mut m = base.clone();
            m.insert(*k, str_edit(i as u64 + ki as u64, &mut r, &old));
            ms.push(m);
            if !old.is_empty() {
                let mut m = base.clone();
                m.insert(*k, String::new());
                ms.push(m);
            }
            let mut m = base.clone();
            m.remove(k);
            ms.push(m);
        }
        // a value moved to another key; an empty value under a new key; two values exchanged
        if let (Some(k), Some(free)) = (keys.first().cloned(), (0..KEYS.len()).find(|k| !base.contains_key(k))) {
            let mut m = base.clone();
            let v = m.remove(&k).unwrap();
            m.insert(free, v);
            ms.push(m);
            let mut m = base.clone();
            m.insert(free, String::new());
            ms.push(m);
        }
        if keys.len() >= 2 {
            let j = r.below(keys.len() as u64 - 1) as usize;
            let mut m = base.clone();
            let (a, b) = (m[&keys[j]].clone(), m[&keys[j + 1]].clone());
            m.insert(keys[j], b);
            m.insert(keys[j + 1], a);
            ms.push(m);
        }
        // a decimal number with a leading zero / a sign (same number, different text)
        if let Some(k) = keys.iter().find(|k| (5..=8).contains(*k)) {
            let mut m = base.clone();
            m.insert(*k, format!("0{}", base[k]));
            ms.push(m);
            let mut m = base.clone();
            m.insert(*k, format!("+{}", base[k]));
            ms.push(m);
        }
        // outside the honest grammar: a value that swallows the next key and value (same bytes in
        // declaration order) — separates BTreeMap (enum) order from any other ordering
        if keys.len() >= 2 {
            let j = r.below(keys.len() as u64 - 1) as usize;
            let mut m = base.clone();
            let v2 = m.remove(&keys[j + 1]).unwrap();
            let v1 = m[&keys[j]].clone();
            m.insert(keys[j], format!("{}{}{}", v1, KEYS[keys[j + 1]], v2));
            ms.push(m);
        }
        {
            let mut m: BTreeMap<usize, String> = BTreeMap::new();
            m.insert(0, "aa".into());
            m.insert(5, "7".into());
            ms.push(m);
            let mut m2: BTreeMap<usize, String> = BTreeMap::new();
            m2.insert(0, format!("aa{}7", KEYS[5]));
            ms.push(m2);
            ms.push(BTreeMap::new());
            let mut m3: BTreeMap<usize, String> = BTreeMap::new();
            m3.insert(r.below(KEYS.len() as u64) as usize, String::new());
            ms.push(m3);
        }
        let hashes: Vec<String> = ms.iter().map(|m| pm_real(m).compute_hash()).collect();
        // oracle: messages that must differ (honest grammar, or different digested streams) have different
        // digests; equal messages have equal digests
        let mut holds = true;
        let mut why = None;
        'o: for a in 0..ms.len() {
            for b in (a + 1)..ms.len() {
                match pm_expect(&ms[a], &ms[b]) {
                    Expect::Differ if hashes[a] == hashes[b] => {
                        holds = false;
                        why = Some(format!("two different protocol messages have the same digest: {:?} / {:?}", ms[a], ms[b]));
                        break 'o;
                    }
                    Expect::Same if hashes[a] != hashes[b] => {
                        holds = false;
                        why = Some("equal protocol messages with different digests".into());
                        break 'o;
                    }
                    _ => {}
                }
            }
        }
        sink.push(Case {
            id,
            kind: "protocol-message".into(),
            desc: serde_json::json!({"messages": ms.iter().map(|m| format!("{} {:?}", if m.values().all(|v| is_honest_value(v)) {"honest"} else {"free"}, m)).collect::<Vec<_>>()}),
            model: Some(share(format!("run_pm {}", coq::list(&ms.iter().map(|m| format!("(pmsg_of {})", pm_coq(m))).collect::<Vec<_>>())))),
            impl_obs: coq::oln(&pattern(&hashes)),
            holds: Some(holds),
            why,
            known: None,
            nontrivial: base.len() >= 2,
            key: format!("{:?}", base),
        });
    }

    // ---- 4. fixed-point conversion of phi_f (the precision the property speaks about) ----
    {
        let mut r = rng.fork();
        if let Some(id) = sink.wants() {
            let n = if args.thorough { 3000 } else { 300 };
            let mut xs: Vec<f64> = vec![0.0, -0.0, 1.0, 0.65, 0.2, 255.0, 255.99999997, 255.99999998, 255.999999971, 256.0, 300.0, -1e-9, -2.9e-8, -3.0e-8, -1.0, 5e-324, 1e300, -1e300, 2.98e-8, 2.99e-8];
            for _ in 0..n {
                xs.push(rand_phi(&mut r));
            }
            let outs: Vec<Option<u64>> = xs
                .iter()
                .map(|x| {
                    let x = *x;
                    hc::catch(move || ProtocolParameters::new(1, 1, x).phi_f_fixed().to_bits() as u64)
                })
                .collect();
            let mut holds = true;
            let mut why = None;
            for (x, o) in xs.iter().zip(outs.iter()) {
                if *o != fixed_bits(*x) {
                    holds = false;
                    why = Some(format!("phi_f_fixed({:e}) = {:?}, round-to-nearest-even at 2^-24 gives {:?}", x, o, fixed_bits(*x)));
                    break;
                }
            }
            sink.push(Case {
                id,
                kind: "phi-fixed".into(),
                desc: serde_json::json!({"count": xs.len(), "sample": xs.iter().take(24).map(|x| format!("{:e}", x)).collect::<Vec<_>>()}),
                model: Some(format!("run_fixed {}", coq::list(&xs.iter().map(|x| phi_coq(*x)).collect::<Vec<_>>()))),
                impl_obs: coq::ol(&outs.iter().map(|o| match o { Some(b) => coq::ores_ok(coq::on(*b)), None => coq::ores_panic() }).collect::<Vec<_>>()),
                holds: Some(holds),
                why,
                known: None,
                nontrivial: true,
                key: "phi-fixed".into(),
            });
        }
    }

    // ---- 4b. phi_f through JSON number text: canonical (serde_json's own output) and re-formatted ----
    for canonical in [true, false] {
        let mut r = rng.fork();
        let Some(id) = sink.wants() else { continue };
        let n = if args.thorough { 40_000 } else { 4_000 };
        let mut bad: Option<String> = None;
        let mut crossed = 0u64;
        for _ in 0..n {
            let x = rand_phi(&mut r);
            let fmt = r.below(3);
            let canon = serde_json::to_string(&x).unwrap();
            let text = if canonical { canon.clone() } else {
                match fmt {
                    0 => format!("{:e}", x),
                    1 => if canon.contains('e') { canon.clone() } else if canon.contains('.') { format!("{}000", canon) } else { format!("{}.0", canon) },
                    _ => format!("{:E}", x).replace('E', "E+").replace("E+-", "E-"),
                }
            };
            let json = format!("{{\"k\":1,\"m\":2,\"phi_f\":{}}}", text);
            let Ok(p) = serde_json::from_str::<ProtocolParameters>(&json) else { bad.get_or_insert(format!("{} does not parse", json)); continue };
            if p.phi_f.to_bits() != x.to_bits() { crossed += 1; }
            if fixed_bits(p.phi_f) != fixed_bits(x) && bad.is_none() {
                bad = Some(format!("phi_f {:e} written as {} is read back as {:e}: fixed-point value {:?} -> {:?}, so the certificate hash changes", x, text, p.phi_f, fixed_bits(x), fixed_bits(p.phi_f)));
            }
        }
        sink.push(Case {
            id,
            kind: if canonical { "phi-json-canonical".into() } else { "phi-json-reformatted".into() },
            desc: serde_json::json!({"values": n, "read_back_with_different_bits": crossed, "first_failure": bad}),
            model: None,
            impl_obs: coq::ol(&[coq::ob(bad.is_none())]),
            holds: Some(bad.is_none()),
            why: bad.clone(),
            known: None,
            nontrivial: true,
            key: format!("phi-json-{}", canonical),
        });
    }

    // ---- 5. wire round trip: Certificate -> CertificateMessage (key / signature strings in either accepted
    //      text form) -> JSON text (perturbed) -> back ----
    for i in 0..n_rt {
        let mut r = rng.fork();
        let Some(id) = sink.wants() else { continue };
        let mut mc = rand_cert(&mut r, Some(i % 4 == 1));
        // keep phi_f inside the fixed-point domain so that hashing is defined
        if fixed_bits(mc.meta.phi).is_none() {
            mc.meta.phi = 0.65;
        }
        // multi-signatures with an edited component travel too
        if let Sig::Multi(t, ms) = &mc.sig {
            let x = MSig { base: ms.base, edit: (r.below(2 * (MSIG_EDITS as u64 + 1))) as u8 };
            if x.edit <= MSIG_EDITS && x.usable() {
                mc.sig = Sig::Multi(t.clone(), x);
            }
        }
        // text form of the keys: 0 = as the conversion writes them, 1 = the other accepted form
        let (alt_avk, alt_sig) = (r.chance(1, 3), r.chance(1, 3));
        let cert = mc.real();
        let mc2 = mc.clone();
        let out = hc::catch(move || -> Result<(Vec<Option<Result<String, ()>>>, Vec<[String; 2]>, String, Certificate), String> {
            let h0 = cert.try_compute_hash().map_err(|e| e.to_string())?;
            let mut msg: CertificateMessage = cert.clone().try_into().map_err(|e: anyhow::Error| e.to_string())?;
            if alt_avk {
                msg.aggregate_verification_key = cert.aggregate_verification_key.to_bytes_hex().map_err(|e| e.to_string())?;
            }
            if alt_sig {
                match &cert.signature {
                    CertificateSignature::GenesisSignature(s) => msg.genesis_signature = s.to_json_hex().map_err(|e| e.to_string())?,
                    CertificateSignature::MultiSignature(_, s) => msg.multi_signature = s.to_bytes_hex().map_err(|e| e.to_string())?,
                }
            }
            let value = serde_json::to_value(&msg).map_err(|e| e.to_string())?;
            let text = perturb(&mut r, &value, "");
            let msg2: CertificateMessage = serde_json::from_str(&text).map_err(|e| format!("{} in {}", e, text))?;
            let cert2: Certificate = msg2.try_into().map_err(|e: anyhow::Error| format!("{:#}", e))?;
            let h1 = cert2.try_compute_hash().map_err(|e| e.to_string())?;
            Ok((
                vec![Some(Ok(cert.hash.clone())), Some(Ok(h0)), Some(Ok(cert2.hash.clone())), Some(Ok(h1))],
                vec![
                    [cert.signed_message.clone(), cert2.signed_message.clone()],
                    [cert.previous_hash.clone(), cert2.previous_hash.clone()],
                    [cert.protocol_message.compute_hash(), cert2.protocol_message.compute_hash()],
                    [cert.aggregate_verification_key.to_json_hex().unwrap_or_default(), cert2.aggregate_verification_key.to_json_hex().unwrap_or_default()],
                ],
                text,
                cert2,
            ))
        });
        let (obs, holds, why, text) = match &out {
            Some(Ok((hs, pairs, text, cert2))) => {
                let same_hash = hs[1] == hs[3] && hs[0] == hs[2];
                let same_sm = pairs[0][0] == pairs[0][1];
                let diff = differs_from(&mc2, cert2);
                (
                    coq::ol(&[
                        coq::ob(true),
                        hash_obs(hs),
                        coq::ol(&pairs.iter().map(|p| coq::oln(&pattern(&p.to_vec()))).collect::<Vec<_>>()),
                        value_obs(cert2),
                    ]),
                    same_hash && same_sm && diff.is_none(),
                    if !same_hash {
                        Some("hash changed across certificate -> message -> JSON -> certificate".to_string())
                    } else if !same_sm {
                        Some("signed message changed across the wire".to_string())
                    } else {
                        diff.map(|d| format!("field `{}` changed across certificate -> message -> JSON -> certificate", d))
                    },
                    text.clone(),
                )
            }
            Some(Err(e)) => (coq::ol(&[coq::ob(false)]), false, Some(format!("round trip failed: {}", e)), String::new()),
            None => (coq::ores_panic(), false, Some("round trip panicked".into()), String::new()),
        };
        let enc = |alt: bool, canonical_json: bool| if alt == canonical_json { "BytesHex" } else { "JsonHex" };
        sink.push(Case {
            id,
            kind: format!(
                "wire-roundtrip/{}{}",
                if matches!(mc2.sig, Sig::Genesis(_)) { "genesis" } else { "standard" },
                if alt_avk || alt_sig { "/other-key-text" } else { "" }
            ),
            desc: serde_json::json!({"certificate": format!("{:?}", mc2), "avk_other_text_form": alt_avk, "signature_other_text_form": alt_sig, "json": text}),
            model: Some(format!(
                "run_roundtrip_enc {} {} {}",
                mc2.coq(),
                enc(alt_avk, true),
                enc(alt_sig, !matches!(mc2.sig, Sig::Genesis(_)))
            )),
            impl_obs: obs,
            holds: Some(holds),
            why,
            known: None,
            nontrivial: true,
            key: format!("{:?}", mc2),
        });
    }

    // ---- 5b. the genesis signature travels as the hex text of 64 RAW bytes: a decoder that guesses the text
    //      form from the payload (e.g. "starts with '{' or '[' => JSON") would misread about one signature in a
    //      hundred.  Deterministic sweep: every value of the first byte, and every JSON-looking two-byte prefix,
    //      through certificate -> message -> JSON -> certificate (implementation only; no model term).
    {
        let mut r = rng.fork();
        let id = sink.wants();
        let mut base = rand_cert(&mut r, Some(true));
        if fixed_bits(base.meta.phi).is_none() {
            base.meta.phi = 0.65;
        }
        let mut failures: Vec<String> = vec![];
        let mut tried = 0u64;
        let base_cert = base.real();
        let mut edits: Vec<Vec<(usize, u8)>> = (0..=255u8).map(|b| vec![(0usize, b)]).collect();
        for pre in [b"{\"", b"[1", b"[]", b"{}", b"\"a", b"nu", b"tr", b"-1", b"0x", b"  "] {
            edits.push(vec![(0, pre[0]), (1, pre[1])]);
        }
        for e in edits {
            let gs = GSig { base: 0, edit: Some(e[0]) };
            let mut bytes = gs.bytes();
            for (p, v) in &e {
                bytes[*p] = *v;
            }
            let text = hex::encode(&bytes);
            let mut cert = base_cert.clone();
            tried += 1;
            let sig = match hc::catch(|| text.as_str().try_into()) {
                Some(Ok(sig)) => sig,
                Some(Err(e)) => {
                    let e: anyhow::Error = e;
                    failures.push(format!("signature {}..: its own hex text does not decode: {}", &text[..8], format!("{:#}", e).chars().take(120).collect::<String>()));
                    continue;
                }
                None => {
                    failures.push(format!("signature {}..: decoding its hex text panicked", &text[..8]));
                    continue;
                }
            };
            cert.signature = CertificateSignature::GenesisSignature(sig);
            let res = hc::catch(move || -> Result<bool, String> {
                let h0 = cert.try_compute_hash().map_err(|e| e.to_string())?;
                let msg: CertificateMessage = cert.clone().try_into().map_err(|e: anyhow::Error| e.to_string())?;
                let text = serde_json::to_string(&msg).map_err(|e| e.to_string())?;
                let msg2: CertificateMessage = serde_json::from_str(&text).map_err(|e| e.to_string())?;
                let cert2: Certificate = msg2.try_into().map_err(|e: anyhow::Error| format!("{:#}", e))?;
                let h1 = cert2.try_compute_hash().map_err(|e| e.to_string())?;
                let same_sig = match (&cert.signature, &cert2.signature) {
                    (CertificateSignature::GenesisSignature(a), CertificateSignature::GenesisSignature(b)) => a.to_bytes_hex().ok() == b.to_bytes_hex().ok(),
                    _ => false,
                };
                Ok(h0 == h1 && same_sig)
            });
            match res {
                Some(Ok(true)) => {}
                Some(Ok(false)) => failures.push(format!("signature {}..: hash or signature changed", &text[..8])),
                Some(Err(e)) => failures.push(format!("signature {}..: {}", &text[..8], e.chars().take(120).collect::<String>())),
                None => failures.push(format!("signature {}..: panicked", &text[..8])),
            }
        }
        if let Some(id) = id {
            sink.push(Case {
                id,
                kind: "wire-roundtrip/genesis-signature-first-bytes".into(),
                desc: serde_json::json!({"signatures_tried": tried, "failures": failures.iter().take(8).collect::<Vec<_>>(), "failure_count": failures.len()}),
                model: None,
                impl_obs: coq::ol(&[coq::ob(failures.is_empty())]),
                holds: Some(failures.is_empty()),
                why: failures.first().map(|f| format!("a valid genesis certificate does not survive the wire: {} ({} of {} signatures)", f, failures.len(), tried)),
                known: None,
                nontrivial: true,
                key: "genesis-signature-first-bytes".into(),
            });
        }
    }

    // ---- 6. round trip of genuine chain certificates, and of tampered copies of them: verification
    //      outcome before / after ----
    let rt = tokio::runtime::Builder::new_current_thread().enable_all().build().unwrap();
    for _ in 0..n_chain_rt {
        let mut r = rng.fork();
        let total = r.range(3, 6);
        let per_epoch = r.range(1, 2);
        let chain = CertificateChainBuilder::new().with_total_certificates(total).with_certificates_per_epoch(per_epoch).build();
        let map: HashMap<String, Certificate> = chain.certificates_chained.iter().map(|c| (c.hash.clone(), c.clone())).collect();
        let verifier = MithrilCertificateVerifier::new(
            slog::Logger::root(slog::Discard, slog::o!()),
            Arc::new(MapRetriever(map)),
            Arc::new(chain.genesis_verifier.clone()),
        );
        for genuine in chain.certificates_chained.iter() {
            for tamper in 0..3u64 {
                let mut r2 = r.fork();
                let Some(id) = sink.wants() else { continue };
                let mut cert = genuine.clone();
                let what = match tamper {
                    0 => "genuine",
                    1 => {
                        // one hashed field edited, hash field kept: verification must fail on both sides
                        match r2.below(5) {
                            0 => cert.epoch = Epoch(*cert.epoch + 1),
                            1 => cert.metadata.sealed_at = cert.metadata.sealed_at + chrono::Duration::nanoseconds(1),
                            2 => cert.metadata.network.push(' '),
                            3 => { if cert.metadata.signers.len() >= 2 { cert.metadata.signers.swap(0, 1) } else { cert.metadata.signers.clear() } }
                            _ => cert.previous_hash = cert.previous_hash.to_uppercase(),
                        }
                        "one field edited, hash kept"
                    }
                    _ => {
                        // one field edited and the hash recomputed: the signature / chaining checks decide
                        match r2.below(3) {
                            0 => cert.signed_message = format!("{}0", cert.signed_message),
                            1 => cert.metadata.protocol_parameters.k += 1,
                            _ => cert.epoch = Epoch(*cert.epoch + 1),
                        }
                        cert.hash = cert.try_compute_hash().unwrap_or_default();
                        "one field edited, hash recomputed"
                    }
                };
                let before = rt.block_on(verifier.verify_certificate(&cert)).is_ok();
                let res: Result<(Certificate, String), String> = (|| {
                    let msg: CertificateMessage = cert.clone().try_into().map_err(|e: anyhow::Error| e.to_string())?;
                    let value = serde_json::to_value(&msg).map_err(|e| e.to_string())?;
                    let text = perturb(&mut r2, &value, "");
                    let msg2: CertificateMessage = serde_json::from_str(&text).map_err(|e| e.to_string())?;
                    Ok((msg2.try_into().map_err(|e: anyhow::Error| e.to_string())?, text))
                })();
                let (holds, why, obs) = match &res {
                    Ok((c2, _)) => {
                        let after = rt.block_on(verifier.verify_certificate(c2)).is_ok();
                        let h1 = cert.try_compute_hash().unwrap_or_default();
                        let h2 = c2.try_compute_hash().unwrap_or_default();
                        // a genuine certificate verifies; one whose hash field no longer matches its content does not;
                        // whatever the outcome, it is the same on both sides of the wire
                        let expected = if tamper == 0 { Some(true) } else if h1 != cert.hash { Some(false) } else { None };
                        let ok = expected.map(|e| e == before).unwrap_or(true) && after == before && h2 == h1 && c2.hash == cert.hash && c2.signed_message == cert.signed_message;
                        (
                            ok,
                            if ok { None } else { Some(format!("{}: verification before={} after={} (expected {:?}), recomputed hash {} -> {}", what, before, after, expected, h1, h2)) },
                            coq::ol(&[coq::ob(before), coq::ob(after), coq::ob(h2 == h1)]),
                        )
                    }
                    Err(e) => (false, Some(format!("round trip failed: {}", e)), coq::ol(&[coq::ob(before)])),
                };
                sink.push(Case {
                    id,
                    kind: format!("wire-roundtrip-verify/{}/{}", if cert.is_genesis() { "genesis" } else { "standard" }, if tamper == 0 { "genuine" } else { "tampered" }),
                    desc: serde_json::json!({"hash": cert.hash, "epoch": *cert.epoch, "what": what, "json": res.as_ref().map(|x| x.1.clone()).unwrap_or_default()}),
                    model: None,
                    impl_obs: obs,
                    holds: Some(holds),
                    why,
                    known: None,
                    nontrivial: true,
                    key: format!("{}/{}", cert.hash, tamper),
                });
            }
        }
    }
    sink.finish();
}
