//! C09 correspondence harness: Merkle membership proofs.
//!  * STM signer-registration tree (batch path) through the cfg hook `mithril_stm::verif_export`;
//!  * `MKProof` / `MKMapProof` of `mithril-merkle-tree` through their public API (proof objects are
//!    mutated through their serde/JSON form, the form in which they travel).
//! Every case prints the model call (digests described symbolically: the harness knows which
//! committed node every honest value is) and the implementation's verdict, and judges the property
//! itself from provenance: acceptance implies every claimed leaf is the committed leaf at its
//! stated position; honest proofs must verify.
use hc::{coq, Case, Rng, Sink};
use mithril_stm::verif_export as vx;
use std::collections::HashMap;

/// Coq printers without scope suffixes: every case term is read under `Open Scope N_scope`.
mod cq {
    pub fn n(x: u64) -> String {
        x.to_string()
    }
    pub fn list(items: &[String]) -> String {
        format!("[{}]", items.join("; "))
    }
    pub fn list_n(xs: &[u64]) -> String {
        list(&xs.iter().map(|x| n(*x)).collect::<Vec<_>>())
    }
    pub fn bytes(xs: &[u8]) -> String {
        list(&xs.iter().map(|x| x.to_string()).collect::<Vec<_>>())
    }
    pub fn pair(a: &str, b: &str) -> String {
        format!("({}, {})", a, b)
    }
}

// ------------------------------------------------------------------------------------------------
// STM tree
// ------------------------------------------------------------------------------------------------
mod stm {
    use super::*;

    /// A small Copy leaf: up to 72 bytes.
    #[derive(Clone, Copy, Debug, PartialEq, Eq)]
    pub struct Lf {
        len: u8,
        b: [u8; 72],
    }
    impl Lf {
        pub fn new(x: &[u8]) -> Self {
            let mut b = [0u8; 72];
            b[..x.len()].copy_from_slice(x);
            Lf { len: x.len() as u8, b }
        }
        pub fn bytes(&self) -> Vec<u8> {
            self.b[..self.len as usize].to_vec()
        }
    }
    impl vx::MerkleTreeLeaf for Lf {
        fn as_bytes_for_merkle_tree(&self) -> Vec<u8> {
            self.bytes()
        }
    }

    /// digest of arbitrary bytes (<= 72) computed by the real code: root of the one-leaf tree
    pub fn h(x: &[u8]) -> Vec<u8> {
        vx::merkle_tree_batch_commitment(&vx::merkle_tree_new(&[Lf::new(x)])).root
    }
    pub fn h2(a: &[u8], b: &[u8]) -> Vec<u8> {
        let mut x = a.to_vec();
        x.extend_from_slice(b);
        h(&x)
    }

    /// symbolic description of a digest (Coq type C09.Model.sspec)
    #[derive(Clone, Debug)]
    pub enum S {
        N(u64),
        Lf(Vec<u8>),
        Nd(Box<S>, Box<S>),
        Junk(u64),
        RootRepl(u64, Vec<u8>),
    }
    impl S {
        pub fn coq(&self) -> String {
            match self {
                S::N(p) => format!("(SN {})", cq::n(*p)),
                S::Lf(x) => format!("(SLf {})", cq::bytes(x)),
                S::Nd(a, b) => format!("(SNd {} {})", a.coq(), b.coq()),
                S::Junk(k) => format!("(SJunk {})", cq::n(*k)),
                S::RootRepl(q, x) => format!("(SRootRepl {} {})", cq::n(*q), cq::bytes(x)),
            }
        }
    }
    pub fn coq_ll(l: &[Vec<u8>]) -> String {
        cq::list(&l.iter().map(|x| cq::bytes(x)).collect::<Vec<_>>())
    }
    pub fn junk_bytes(k: u64) -> Vec<u8> {
        // 32 bytes that are no digest of anything used here
        let mut r = Rng::new(0xC09_0000 + k);
        r.bytes(32)
    }

    /// committed leaf i of the tree tagged `tag`
    pub fn payload(tag: u8, i: usize) -> Vec<u8> {
        vec![1, 0, tag, (i >> 8) as u8, i as u8]
    }
    pub fn foreign(k: u64) -> Vec<u8> {
        vec![2, (k >> 16) as u8, (k >> 8) as u8, k as u8, 7]
    }

    pub struct Tree {
        pub tag: u8,
        pub payloads: Vec<Vec<u8>>,
        pub t: vx::MerkleTree<vx::TreeDigest, Lf>,
        pub root: Vec<u8>,
        /// heap position -> digest, for every node the real tree ever emits (+ the root)
        pub node: HashMap<u64, Vec<u8>>,
        /// digest -> smallest heap position
        pub pos_of: HashMap<Vec<u8>, u64>,
    }
    pub fn np2(n: usize) -> u64 {
        (n as u64).next_power_of_two()
    }
    impl Tree {
        pub fn new(tag: u8, n: usize) -> Tree {
            let payloads: Vec<Vec<u8>> = (0..n).map(|i| payload(tag, i)).collect();
            let leaves: Vec<Lf> = payloads.iter().map(|p| Lf::new(p)).collect();
            let t = vx::merkle_tree_new(&leaves);
            let root = vx::merkle_tree_batch_commitment(&t).root;
            let mut node: HashMap<u64, Vec<u8>> = HashMap::new();
            node.insert(0, root.clone());
            let nr = n as u64 + np2(n) - 1;
            let off = np2(n) - 1;
            for i in 0..n {
                let (vals, _) = vx::batch_path_parts(&vx::merkle_tree_batch_path(&t, vec![i]));
                // positions of the emitted siblings along the walk from the leaf to the root
                let mut p = off + i as u64;
                let mut k = 0;
                while p > 0 {
                    let s = if p % 2 == 1 { p + 1 } else { p - 1 };
                    if s < nr {
                        node.insert(s, vals[k].clone());
                        k += 1;
                    }
                    p = (p - 1) / 2;
                }
                assert_eq!(k, vals.len(), "single-leaf path has an unexpected number of values");
            }
            // the leaf digests themselves (a leaf is the sibling of its sibling; the last odd one is not)
            for i in 0..n {
                node.entry(off + i as u64).or_insert_with(|| h(&payloads[i]));
            }
            let mut pos_of: HashMap<Vec<u8>, u64> = HashMap::new();
            for (p, d) in &node {
                let e = pos_of.entry(d.clone()).or_insert(*p);
                if *p < *e {
                    *e = *p;
                }
            }
            Tree { tag, payloads, t, root, node, pos_of }
        }
        pub fn n(&self) -> usize {
            self.payloads.len()
        }
        pub fn coq_leaves(&self) -> String {
            format!("(gl_list 1 {} {})", self.tag, self.n())
        }
    }

    /// a verification input: everything the verifier sees, bytes and symbolic description side by side
    #[derive(Clone)]
    pub struct VIn {
        pub root: (Vec<u8>, S),
        pub nrl: u64,
        pub leaves: Vec<Vec<u8>>,
        pub vals: Vec<(Vec<u8>, S)>,
        pub idxs: Vec<u64>,
    }

    /// 0 accept, 1 reject, 2 panic
    pub fn verify(v: &VIn) -> u8 {
        let v = v.clone();
        let r = hc::catch(move || {
            let c = vx::batch_commitment_new::<Lf>(v.root.0.clone(), v.nrl as usize);
            let p = vx::batch_path_new(
                v.vals.iter().map(|x| x.0.clone()).collect(),
                v.idxs.iter().map(|i| *i as usize).collect(),
            );
            let ls: Vec<Lf> = v.leaves.iter().map(|x| Lf::new(x)).collect();
            vx::batch_commitment_verify(&c, &ls, &p).is_ok()
        });
        match r {
            Some(true) => 0,
            Some(false) => 1,
            None => 2,
        }
    }

    pub fn model_verify(t: &Tree, v: &VIn) -> String {
        format!(
            "C09.Model.run_stm_verify {} {} {} {} {} {}",
            t.coq_leaves(),
            v.root.1.coq(),
            cq::n(v.nrl),
            coq_ll(&v.leaves),
            cq::list(&v.vals.iter().map(|x| x.1.coq()).collect::<Vec<_>>()),
            cq::list_n(&v.idxs)
        )
    }

    /// honest generation; None = panic
    pub fn gen(t: &Tree, idxs: &[u64]) -> Option<(Vec<Vec<u8>>, Vec<u64>)> {
        let tt = t.t.clone();
        let ix: Vec<usize> = idxs.iter().map(|i| *i as usize).collect();
        hc::catch(std::panic::AssertUnwindSafe(move || {
            let (v, i) = vx::batch_path_parts(&vx::merkle_tree_batch_path(&tt, ix));
            (v, i.into_iter().map(|x| x as u64).collect())
        }))
    }

    pub fn honest_input(t: &Tree, idxs: &[u64]) -> VIn {
        let (vals, ix) = gen(t, idxs).expect("honest generation panicked");
        VIn {
            root: (t.root.clone(), S::N(0)),
            nrl: t.n() as u64,
            leaves: ix.iter().map(|i| t.payloads[*i as usize].clone()).collect(),
            vals: vals
                .into_iter()
                .map(|v| {
                    let p = *t.pos_of.get(&v).expect("generated value is no node of the tree");
                    (v, S::N(p))
                })
                .collect(),
            idxs: ix,
        }
    }

    /// the property judged from provenance: every claimed leaf is the committed leaf at its index
    pub fn claims_true(t: &Tree, v: &VIn) -> bool {
        v.leaves.len() == v.idxs.len()
            && v.idxs.iter().zip(&v.leaves).all(|(i, l)| (*i as usize) < t.n() && *i < t.n() as u64 && t.payloads[*i as usize] == *l)
    }

    #[derive(Clone, Copy, PartialEq, Debug)]
    pub enum Expect {
        /// must verify (honest, or honest with unread extra values)
        Accept,
        /// must not verify (a used path value, the root or a leaf/position was altered)
        Reject,
        /// only soundness is judged: acceptance implies the claims are true
        Sound,
        /// outside the separation assumption (payload equal to the padding pre-image): not judged
        NotJudged,
    }

    pub struct Mutated {
        pub kind: String,
        pub v: VIn,
        pub expect: Expect,
    }

    /// one structured mutation of an honest input
    pub fn mutate(t: &Tree, base: &VIn, rng: &mut Rng, which: u64) -> Mutated {
        let n = t.n() as u64;
        let mut v = base.clone();
        let k = v.idxs.len().min(v.leaves.len());
        let j = rng.below(k as u64) as usize;
        let fresh = rng.below(1 << 20);
        let some_node = |rng: &mut Rng, not: &[u8]| -> (Vec<u8>, S) {
            // a committed node with a digest different from `not`
            let mut ps: Vec<&u64> = t.node.keys().collect();
            ps.sort();
            for _ in 0..8 {
                let p = **rng.pick(&ps);
                if t.node[&p] != not {
                    return (t.node[&p].clone(), S::N(t.pos_of[&t.node[&p]]));
                }
            }
            (junk_bytes(fresh), S::Junk(fresh))
        };
        let (kind, expect): (&str, Expect) = match which {
            0 => {
                v.leaves[j] = foreign(fresh);
                ("leaf-replaced-foreign", Expect::Reject)
            }
            1 => {
                if n < 2 {
                    v.leaves[j] = foreign(fresh);
                    ("leaf-replaced-foreign", Expect::Reject)
                } else {
                    let mut o = rng.below(n);
                    if o == v.idxs[j] {
                        o = (o + 1) % n;
                    }
                    v.leaves[j] = t.payloads[o as usize].clone();
                    ("leaf-replaced-other-committed", Expect::Reject)
                }
            }
            2 => {
                // moved leaf: same payload, another position; indices kept sorted
                let mut o = rng.below(n + 2);
                if o == v.idxs[j] {
                    o += 1;
                }
                v.idxs[j] = o;
                let mut z: Vec<(u64, Vec<u8>)> = v.idxs.iter().cloned().zip(v.leaves.iter().cloned()).collect();
                z.sort_by_key(|e| e.0);
                v.idxs = z.iter().map(|e| e.0).collect();
                v.leaves = z.into_iter().map(|e| e.1).collect();
                ("leaf-moved-sorted", Expect::Reject)
            }
            3 => {
                // moved leaf, list left as is (possibly unsorted)
                let mut o = rng.below(n + 2);
                if o == v.idxs[j] {
                    o += 1;
                }
                v.idxs[j] = o;
                ("leaf-moved-in-place", Expect::Reject)
            }
            4 => {
                if k >= 2 {
                    let j2 = (j + 1 + rng.below(k as u64 - 1) as usize) % k;
                    v.leaves.swap(j, j2);
                    ("leaves-swapped", Expect::Reject)
                } else {
                    v.leaves[j] = foreign(fresh);
                    ("leaf-replaced-foreign", Expect::Reject)
                }
            }
            5 => {
                // duplicated (index, leaf) entry: claims stay true, the walk never merges the two copies
                v.idxs.insert(j, v.idxs[j]);
                v.leaves.insert(j, v.leaves[j].clone());
                ("index-duplicated", Expect::Sound)
            }
            6 => {
                let cands = [n, n + 1, np2(n as usize) - 1, np2(n as usize), 2 * np2(n as usize), 1 << 32, (1 << 63) - 1, 1 << 63, u64::MAX - np2(n as usize), u64::MAX - np2(n as usize) + 1, u64::MAX - 1, u64::MAX];
                let cands: Vec<u64> = cands.iter().cloned().filter(|o| *o >= n).collect();
                let o = *rng.pick(&cands);
                let lf = if rng.coin() { foreign(fresh) } else { v.leaves[k - 1].clone() };
                if rng.coin() {
                    v.idxs[k - 1] = o;
                    v.leaves[k - 1] = lf;
                } else {
                    v.idxs.push(o);
                    v.leaves.push(lf);
                }
                ("index-out-of-range", Expect::Reject)
            }
            7 => {
                if k >= 2 {
                    let j2 = (j + 1) % k;
                    v.idxs.swap(j, j2);
                    if rng.coin() {
                        v.leaves.swap(j, j2);
                        ("unsorted-pairs-swapped", Expect::Sound)
                    } else {
                        ("unsorted-indices-swapped", Expect::Reject)
                    }
                } else {
                    v.idxs.push(v.idxs[0].wrapping_sub(1));
                    v.leaves.push(foreign(fresh));
                    ("unsorted-appended", Expect::Reject)
                }
            }
            8 => {
                if v.vals.is_empty() {
                    v.vals.push((junk_bytes(fresh), S::Junk(fresh)));
                    ("value-appended-unread", Expect::Accept)
                } else {
                    let q = rng.below(v.vals.len() as u64) as usize;
                    v.vals[q] = match rng.below(3) {
                        0 => (junk_bytes(fresh), S::Junk(fresh)),
                        1 => some_node(rng, &base.vals[q].0.clone()),
                        _ => {
                            let z = h(&[0u8]);
                            if z == base.vals[q].0 { (junk_bytes(fresh), S::Junk(fresh)) } else { (z, S::Lf(vec![0])) }
                        }
                    };
                    ("value-altered", Expect::Reject)
                }
            }
            9 => {
                if v.vals.is_empty() {
                    v.root = (junk_bytes(fresh), S::Junk(fresh));
                    ("root-junk", Expect::Reject)
                } else {
                    let q = rng.below(v.vals.len() as u64) as usize;
                    v.vals.remove(q);
                    ("value-dropped", Expect::Reject)
                }
            }
            10 => {
                if v.vals.is_empty() {
                    v.vals.push((junk_bytes(fresh), S::Junk(fresh)));
                    ("value-appended-unread", Expect::Accept)
                } else {
                    let q = rng.below(v.vals.len() as u64) as usize;
                    let c = v.vals[q].clone();
                    v.vals.insert(q, c);
                    let same = v.vals[..base.vals.len()].iter().zip(&base.vals).all(|(a, b)| a.0 == b.0);
                    ("value-duplicated", if same { Expect::Accept } else { Expect::Reject })
                }
            }
            11 => {
                v.vals.push(some_node(rng, &[]));
                ("value-appended-unread", Expect::Accept)
            }
            12 => {
                v.root = match rng.below(4) {
                    0 => (junk_bytes(fresh), S::Junk(fresh)),
                    1 => some_node(rng, &t.root.clone()),
                    2 => {
                        // root of the tree with one leaf replaced
                        let mut l2 = t.payloads.clone();
                        let q = rng.below(n) as usize;
                        l2[q] = foreign(fresh);
                        let t2 = vx::merkle_tree_new(&l2.iter().map(|p| Lf::new(p)).collect::<Vec<_>>());
                        (vx::merkle_tree_batch_commitment(&t2).root, S::RootRepl(q as u64, foreign(fresh)))
                    }
                    _ => {
                        // digest of (root, root): a well-formed digest that is no root
                        (h2(&t.root, &t.root), S::Nd(Box::new(S::N(0)), Box::new(S::N(0))))
                    }
                };
                ("root-altered", Expect::Reject)
            }
            13 => {
                let cands = [0u64, 1, n.saturating_sub(1), n + 1, np2(n as usize), np2(n as usize) + 1, 2 * np2(n as usize), np2(n as usize) / 2, 1 << 62, (1 << 63) - 1, 1 << 63, (1 << 63) + 1, u64::MAX - 1, u64::MAX];
                let mut o = *rng.pick(&cands);
                if o == n {
                    o = n + 2;
                }
                v.nrl = o;
                ("nr-leaves-altered", Expect::Sound)
            }
            14 => {
                let q = rng.below(k as u64) as usize;
                if rng.coin() {
                    v.leaves.remove(q);
                } else {
                    v.idxs.remove(q);
                }
                ("length-mismatch", Expect::Reject)
            }
            15 => {
                // claim the padding pre-image at the first position behind the leaves: outside the
                // separation assumption (a leaf payload is never the single byte 0), not judged
                v.idxs.push(n);
                v.leaves.push(vec![0]);
                ("hsep-padding-claim", Expect::NotJudged)
            }
            16 => {
                v.idxs.clear();
                v.leaves.clear();
                ("empty", Expect::Reject)
            }
            _ => {
                // a second entry at the same index carrying a foreign leaf, every path value doubled so
                // that the genuine entry still climbs to the root: only the final "exactly one node left"
                // test stands between this input and acceptance
                if k == 1 && base.vals.len() == v.vals.len() {
                    v.idxs.push(v.idxs[0]);
                    // the genuine entry first (a verifier looking only at the first remaining node would
                    // accept) or last (one looking only at the last)
                    if rng.coin() {
                        v.leaves.push(foreign(fresh));
                    } else {
                        v.leaves.insert(0, foreign(fresh));
                    }
                    v.vals = v.vals.iter().flat_map(|x| [x.clone(), x.clone()]).collect();
                    ("dup-index-foreign-leaf-doubled-path", Expect::Reject)
                } else {
                    v.idxs.insert(j, v.idxs[j]);
                    v.leaves.insert(j, foreign(fresh));
                    ("dup-index-foreign-leaf", Expect::Reject)
                }
            }
        };
        Mutated { kind: kind.into(), v, expect }
    }
    pub const N_MUT: u64 = 18;

    pub fn desc(t_tag: u8, t: &Tree, v: &VIn) -> serde_json::Value {
        serde_json::json!({
            "tree": {"leaves": t.n(), "payload_of_leaf_i": format!("[1,0,{},i>>8,i&255]", t_tag)},
            "root": format!("{:?}", v.root.1), "nr_leaves_claimed": v.nrl,
            "claimed_leaves": v.leaves.iter().map(hex::encode).collect::<Vec<_>>(),
            "indices": v.idxs.iter().map(|i| i.to_string()).collect::<Vec<_>>(),
            "path_values": v.vals.iter().map(|x| format!("{:?}", x.1)).collect::<Vec<_>>(),
        })
    }

    fn push_verify(sink: &mut Sink, id: u64, tag: u8, t: &Tree, kind: String, v: &VIn, expect: Expect, paired: bool) {
        let out = verify(v);
        let acc = out == 0;
        let root_honest = v.root.0 == t.root;
        let (holds, why) = match expect {
            Expect::NotJudged => (None, None),
            _ if acc && !(root_honest && claims_true(t, v)) => (
                Some(false),
                Some("the verifier accepted although a claimed leaf is not the committed leaf at its index (or the root is not the committed root)".to_string()),
            ),
            Expect::Accept if !acc => (Some(false), Some("an honest proof does not verify".to_string())),
            Expect::Reject if acc && !paired => (Some(false), Some("an altered proof component was accepted".to_string())),
            _ => (Some(true), None),
        };
        sink.push(Case {
            id,
            kind: format!("stm/{}", kind),
            desc: desc(tag, t, v),
            model: Some(model_verify(t, v)),
            impl_obs: coq::oz(out as i128),
            holds,
            why,
            known: None,
            nontrivial: t.n() >= 2,
            key: format!("stm/{}/{}/{:?}/{:?}/{}/{:?}/{:?}", kind, t.n(), v.idxs, v.leaves, v.nrl, v.root.1, v.vals.iter().map(|x| &x.1).collect::<Vec<_>>()),
        });
    }

    fn push_gen(sink: &mut Sink, id: u64, t: &Tree, kind: &str, idxs: &[u64], must_work: bool) {
        let g = gen(t, idxs);
        let (obs, holds, why) = match &g {
            None => (coq::ol(&[coq::oz(2)]), if must_work { Some(false) } else { Some(true) }, if must_work { Some("generation panicked on a valid index list".to_string()) } else { None }),
            Some((vals, ix)) => {
                let ps: Vec<String> = vals
                    .iter()
                    .map(|v| match t.pos_of.get(v) {
                        Some(p) => coq::on(*p),
                        None => coq::oz(-1),
                    })
                    .collect();
                // honest proofs must verify
                let ok = if must_work {
                    let v = honest_input(t, idxs);
                    verify(&v) == 0 && ix == idxs
                } else {
                    true
                };
                (
                    coq::ol(&[coq::oz(0), coq::ol(&ps), coq::oln(ix)]),
                    Some(ok),
                    if ok { None } else { Some("the generated batch path does not verify against the commitment".to_string()) },
                )
            }
        };
        sink.push(Case {
            id,
            kind: format!("stm/{}", kind),
            desc: serde_json::json!({"tree_leaves": t.n(), "indices": idxs.iter().map(|i| i.to_string()).collect::<Vec<_>>()}),
            model: Some(format!("C09.Model.run_stm_gen {} {}", t.coq_leaves(), cq::list_n(idxs))),
            impl_obs: obs,
            holds,
            why,
            known: None,
            nontrivial: t.n() >= 2,
            key: format!("stm/gen/{}/{:?}", t.n(), idxs),
        });
    }

    /// honest generation + verification, then `nmut` single mutations and `npair` paired ones
    fn explore(sink: &mut Sink, rng: &mut Rng, tag: u8, t: &Tree, idxs: &[u64], kind: &str, nmut: usize, npair: usize, all_muts: bool) {
        if let Some(id) = sink.wants() {
            push_gen(sink, id, t, kind, idxs, true);
        }
        let mut base: Option<VIn> = None;
        let muts: Vec<u64> = if all_muts { (0..N_MUT).collect() } else { (0..nmut).map(|_| rng.below(N_MUT)).collect() };
        for w in muts {
            let mut r = rng.fork();
            let Some(id) = sink.wants() else { continue };
            let b = base.get_or_insert_with(|| honest_input(t, idxs));
            let m = mutate(t, b, &mut r, w);
            push_verify(sink, id, tag, t, m.kind.clone(), &m.v, m.expect, false);
        }
        for _ in 0..npair {
            let mut r = rng.fork();
            let (w1, w2) = (rng.below(15), rng.below(15));
            let Some(id) = sink.wants() else { continue };
            let b = base.get_or_insert_with(|| honest_input(t, idxs));
            let m1 = mutate(t, b, &mut r, w1);
            if m1.v.idxs.is_empty() || m1.v.leaves.is_empty() {
                push_verify(sink, id, tag, t, m1.kind.clone(), &m1.v, m1.expect, false);
                continue;
            }
            let mut m2 = mutate(t, &m1.v, &mut r, w2);
            // re-describe appended/duplicated values relative to the honest path: only soundness is judged
            if m1.expect == Expect::NotJudged {
                m2.expect = Expect::NotJudged;
            }
            let e = if m2.expect == Expect::NotJudged { Expect::NotJudged } else { Expect::Sound };
            push_verify(sink, id, tag, t, "pair".to_string(), &m2.v, e, true);
        }
    }

    // ---- the real leaf of the signer-registration tree: (BLS verification key, stake) = 96 + 8 bytes.
    // The committed payloads handed to the model are computed here (key bytes ++ big-endian stake),
    // the implementation hashes whatever `as_bytes_for_merkle_tree` says: a claimed entry that differs
    // from the committed one in any byte of the key or of the stake must not verify.
    type RLeaf = vx::MerkleTreeConcatenationLeaf;
    fn rpayload(l: &RLeaf) -> Vec<u8> {
        let mut b = l.0.to_bytes().to_vec();
        b.extend_from_slice(&l.1.to_be_bytes());
        b
    }
    fn verify_real(root: &[u8], nrl: usize, claims: &[RLeaf], vals: &[Vec<u8>], idxs: &[usize]) -> u8 {
        let (root, claims, vals, idxs) = (root.to_vec(), claims.to_vec(), vals.to_vec(), idxs.to_vec());
        let r = hc::catch(std::panic::AssertUnwindSafe(move || {
            let c = vx::batch_commitment_new::<RLeaf>(root, nrl);
            let p = vx::batch_path_new(vals, idxs);
            vx::batch_commitment_verify(&c, &claims, &p).is_ok()
        }));
        match r {
            Some(true) => 0,
            Some(false) => 1,
            None => 2,
        }
    }
    pub fn run_real(sink: &mut Sink, rng: &mut Rng, thorough: bool) {
        use mithril_common::test::builder::MithrilFixtureBuilder;
        let nkeys = 7usize;
        let fx = MithrilFixtureBuilder::default().with_signers(nkeys).build();
        let vks: Vec<_> = fx.signers_fixture().iter().map(|s| s.verification_key_for_concatenation().into_inner().vk).collect();
        let pool: [u64; 12] = [0, 1, 2, 255, 256, 65_536, 1 << 32, (1 << 32) + 1, 1 << 56, 0x0102_0304_0506_0708, u64::MAX - 1, u64::MAX];
        for n in 1..nkeys {
            let committed: Vec<RLeaf> = (0..n).map(|i| vx::MerkleTreeConcatenationLeaf(vks[i], *rng.pick(&pool))).collect();
            let t = vx::merkle_tree_new(&committed);
            let root = vx::merkle_tree_batch_commitment(&t).root;
            // digest -> smallest heap position, from the single-leaf paths (as Tree::new does)
            let nr = n as u64 + np2(n) - 1;
            let off = np2(n) - 1;
            let mut pos_of: HashMap<Vec<u8>, u64> = HashMap::new();
            pos_of.insert(root.clone(), 0);
            for i in 0..n {
                let (vals, _) = vx::batch_path_parts(&vx::merkle_tree_batch_path(&t, vec![i]));
                let (mut p, mut k) = (off + i as u64, 0);
                while p > 0 {
                    let sb = if p % 2 == 1 { p + 1 } else { p - 1 };
                    if sb < nr {
                        let e = pos_of.entry(vals[k].clone()).or_insert(sb);
                        if sb < *e {
                            *e = sb;
                        }
                        k += 1;
                    }
                    p = (p - 1) / 2;
                }
            }
            let masks: Vec<u32> = if n <= 4 { (1u32..(1 << n)).collect() } else { (0..if thorough { 16 } else { 6 }).map(|_| 1 + rng.below((1 << n) - 1) as u32).collect() };
            for mask in masks {
                let idxs: Vec<usize> = (0..n).filter(|i| mask >> i & 1 == 1).collect();
                let (vals, _) = vx::batch_path_parts(&vx::merkle_tree_batch_path(&t, idxs.clone()));
                let svals: Vec<S> = vals.iter().map(|v| S::N(*pos_of.get(v).expect("generated value is no node of the tree"))).collect();
                // variants of the claimed entries: 0 honest; 1..=8 one stake byte of one entry altered;
                // 9 key of another signer with the committed stake; 10 another committed entry; 11 a
                // committed key with the stake of another entry; 12 a key outside the tree
                for variant in 0..13u32 {
                    let mut r = rng.fork();
                    let Some(id) = sink.wants() else { continue };
                    let mut claims: Vec<RLeaf> = idxs.iter().map(|i| committed[*i]).collect();
                    let j = r.below(claims.len() as u64) as usize;
                    let o = (idxs[j] + 1 + r.below(nkeys as u64 - 1) as usize) % nkeys;
                    let kind = match variant {
                        0 => "honest",
                        1..=8 => {
                            claims[j].1 ^= (1 + r.below(255)) << (8 * (variant - 1));
                            "stake-byte-altered"
                        }
                        9 => {
                            claims[j].0 = vks[o];
                            "key-of-another-signer"
                        }
                        10 => {
                            claims[j] = committed[(idxs[j] + 1) % n];
                            "another-committed-entry"
                        }
                        11 => {
                            claims[j].1 = committed[(idxs[j] + 1) % n].1.wrapping_add(if n == 1 { 1 } else { 0 });
                            "stake-of-another-entry"
                        }
                        _ => {
                            claims[j].0 = vks[nkeys - 1];
                            "key-outside-the-tree"
                        }
                    };
                    let out = verify_real(&root, n, &claims, &vals, &idxs);
                    let acc = out == 0;
                    let truthful = claims.iter().zip(&idxs).all(|(c, i)| rpayload(c) == rpayload(&committed[*i]));
                    let (holds, why) = if acc && !truthful {
                        (false, Some("the verifier accepted a registration entry (key, stake) that is not the committed entry at its index".to_string()))
                    } else if !acc && truthful {
                        (false, Some("the committed registration entries do not verify with the generated batch path".to_string()))
                    } else {
                        (true, None)
                    };
                    let cl: Vec<Vec<u8>> = committed.iter().map(rpayload).collect();
                    let cc: Vec<Vec<u8>> = claims.iter().map(rpayload).collect();
                    let ix: Vec<u64> = idxs.iter().map(|i| *i as u64).collect();
                    sink.push(Case {
                        id,
                        kind: format!("stm-real/{}", kind),
                        desc: serde_json::json!({"tree_leaves": n, "committed (key ++ stake)": cl.iter().map(hex::encode).collect::<Vec<_>>(), "indices": ix, "claimed": cc.iter().map(hex::encode).collect::<Vec<_>>(), "altered_entry": j}),
                        model: Some(format!(
                            "C09.Model.run_stm_verify {} (SN 0) {} {} {} {}",
                            coq_ll(&cl),
                            cq::n(n as u64),
                            coq_ll(&cc),
                            cq::list(&svals.iter().map(|x| x.coq()).collect::<Vec<_>>()),
                            cq::list_n(&ix)
                        )),
                        impl_obs: coq::oz(out as i128),
                        holds: Some(holds),
                        why,
                        known: None,
                        nontrivial: n >= 2,
                        key: format!("stm-real/{}/{}/{:?}/{:?}", kind, n, idxs, cc),
                    });
                }
            }
        }
    }

    pub fn run(sink: &mut Sink, rng: &mut Rng, thorough: bool) {
        // 1. exhaustive: every size <= NMAX, every non-empty subset
        let nmax = 10;
        for n in 1..=nmax {
            let tag = n as u8;
            let t = Tree::new(tag, n);
            for mask in 1u32..(1 << n) {
                let idxs: Vec<u64> = (0..n as u64).filter(|i| mask >> i & 1 == 1).collect();
                let (nm, np) = if thorough { (4, 1) } else { (1, if mask % 4 == 0 { 1 } else { 0 }) };
                let all = n <= 5 && (thorough || mask % 3 == 1);
                explore(sink, rng, tag, &t, &idxs, "exhaustive", nm, np, all);
            }
            // generator asserts: empty, out of range, unsorted, duplicated
            let bad: Vec<Vec<u64>> = vec![vec![], vec![n as u64], vec![0, n as u64], vec![u64::MAX], vec![0, 0], if n >= 2 { vec![1, 0] } else { vec![0, 0, 0] }];
            for b in bad {
                if let Some(id) = sink.wants() {
                    push_gen(sink, id, &t, "gen-assert", &b, false);
                }
            }
        }
        // 2. sampled sizes
        let (ntrees, top) = if thorough { (220, 520) } else { (36, 300) };
        for k in 0..ntrees {
            let n = match k % 6 {
                0 => rng.range(11, 40),
                1 => 1 << rng.range(4, if thorough { 9 } else { 8 }),
                2 => (1 << rng.range(4, if thorough { 9 } else { 8 })) + 1,
                3 => (1 << rng.range(4, if thorough { 9 } else { 8 })) - 1,
                _ => rng.range(11, top),
            } as usize;
            let tag = 100 + (k % 100) as u8;
            let t = Tree::new(tag, n);
            let shapes = if thorough { 4 } else { 3 };
            for s in 0..shapes {
                let mut idxs: Vec<u64> = match (s + k) % 5 {
                    0 => {
                        let c = rng.range(1, 12.min(n as u64));
                        (0..c).map(|_| rng.below(n as u64)).collect()
                    }
                    1 => vec![n as u64 - 1],
                    2 => {
                        // a run of neighbours ending at the last leaf + the first leaf
                        let c = rng.range(1, 6.min(n as u64));
                        let mut v: Vec<u64> = (n as u64 - c..n as u64).collect();
                        v.push(0);
                        v
                    }
                    3 => {
                        let c = rng.range(1, 40.min(n as u64));
                        (0..c).map(|_| rng.below(n as u64)).collect()
                    }
                    _ => {
                        if n <= 64 { (0..n as u64).collect() } else { (0..n as u64).filter(|_| rng.chance(1, 4)).collect() }
                    }
                };
                idxs.sort();
                idxs.dedup();
                if idxs.is_empty() {
                    idxs.push(0);
                }
                explore(sink, rng, tag, &t, &idxs, "sampled", if thorough { 5 } else { 3 }, 1, false);
            }
        }
    }
}

// ------------------------------------------------------------------------------------------------
// MKProof / MKMapProof (mithril-merkle-tree over ckb-merkle-mountain-range)
// ------------------------------------------------------------------------------------------------
mod mmr {
    use super::*;
    use mithril_common::entities::BlockRange;
    use mithril_merkle_tree::{
        MKMap, MKMapNode, MKMapProof, MKProof, MKTree, MKTreeLeafIndexer, MKTreeLeafPosition, MKTreeNode, MKTreeStoreInMemory, MKTreeStorer,
    };
    use serde_json::{json, Value};
    use std::cell::RefCell;
    use std::collections::BTreeMap;
    use std::sync::{Arc, RwLock};

    // ---- a storer that lets the harness see what the real MMR stored at which position ----
    pub struct Inner {
        leaves: RwLock<HashMap<Arc<MKTreeNode>, MKTreeLeafPosition>>,
        store: RwLock<HashMap<u64, Arc<MKTreeNode>>>,
    }
    thread_local! { static REG: RefCell<Vec<Arc<Inner>>> = RefCell::new(vec![]); }
    #[derive(Clone)]
    pub struct Obs(Arc<Inner>);
    impl MKTreeLeafIndexer for Obs {
        fn set_leaf_position(&self, pos: MKTreeLeafPosition, node: Arc<MKTreeNode>) -> anyhow::Result<()> {
            self.0.leaves.write().unwrap().insert(node, pos);
            Ok(())
        }
        fn get_leaf_position(&self, node: &MKTreeNode) -> Option<MKTreeLeafPosition> {
            self.0.leaves.read().unwrap().get(node).cloned()
        }
        fn total_leaves(&self) -> usize {
            self.0.leaves.read().unwrap().len()
        }
        fn leaves(&self) -> Vec<MKTreeNode> {
            let l = self.0.leaves.read().unwrap();
            l.iter().map(|(leaf, position)| (position, leaf)).collect::<BTreeMap<_, _>>().into_values().map(|leaf| (**leaf).clone()).collect()
        }
    }
    impl MKTreeStorer for Obs {
        fn build() -> anyhow::Result<Self> {
            let i = Arc::new(Inner { leaves: RwLock::new(HashMap::new()), store: RwLock::new(HashMap::new()) });
            REG.with(|r| r.borrow_mut().push(i.clone()));
            Ok(Obs(i))
        }
        fn get_elem(&self, pos: u64) -> anyhow::Result<Option<Arc<MKTreeNode>>> {
            Ok(self.0.store.read().unwrap().get(&pos).cloned())
        }
        fn append(&self, pos: u64, elems: Vec<Arc<MKTreeNode>>) -> anyhow::Result<()> {
            let mut s = self.0.store.write().unwrap();
            for (i, e) in elems.into_iter().enumerate() {
                s.insert(pos + i as u64, e);
            }
            Ok(())
        }
    }
    fn take_reg() -> Vec<Arc<Inner>> {
        REG.with(|r| std::mem::take(&mut *r.borrow_mut()))
    }

    /// symbolic description of a node (Coq type C09.Model.mspec)
    #[derive(Clone, Debug, PartialEq)]
    pub enum M {
        N(u64, u64),
        Raw(Vec<u8>),
        Mrg(Box<M>, Box<M>),
        Junk(u64),
        Bag(u64, u64),
    }
    impl M {
        pub fn coq(&self) -> String {
            match self {
                M::N(t, p) => format!("(MN {} {})", cq::n(*t), cq::n(*p)),
                M::Raw(b) => format!("(MRaw {})", cq::bytes(b)),
                M::Mrg(a, b) => format!("(MMrg {} {})", a.coq(), b.coq()),
                M::Junk(k) => format!("(MJunk {})", cq::n(*k)),
                M::Bag(t, k) => format!("(MBag {} {})", cq::n(*t), cq::n(*k)),
            }
        }
    }
    pub type BV = (Vec<u8>, M);
    pub fn junk(k: u64) -> BV {
        let mut r = Rng::new(0xC09_1111 + k);
        (r.bytes(32), M::Junk(k))
    }
    pub fn merge(a: &[u8], b: &[u8]) -> Vec<u8> {
        (&MKTreeNode::new(a.to_vec()) + &MKTreeNode::new(b.to_vec())).to_vec()
    }
    fn get_peaks(size: u64) -> Vec<u64> {
        // positions of the peaks (only used to name the bagged right-hand-side item of honest proofs)
        let mut peaks = vec![];
        if size == 0 {
            return peaks;
        }
        let mut pos = size;
        let mut peak_size = u64::MAX >> size.leading_zeros();
        let mut sum = 0;
        while peak_size > 0 {
            if pos >= peak_size {
                pos -= peak_size;
                peaks.push(sum + peak_size - 1);
                sum += peak_size;
            }
            peak_size >>= 1;
        }
        peaks
    }

    /// one committed tree, as the real code built it
    pub struct T {
        pub id: u64,
        pub tag: Option<u64>,
        pub leaves: Vec<Vec<u8>>,
        pub tree: Arc<MKTree<Obs>>,
        pub root: Vec<u8>,
        pub size: u64,
        pub pos: Vec<u64>,
        pub store: BTreeMap<u64, Vec<u8>>,
        pub name: HashMap<Vec<u8>, M>,
        /// how the real tree was obtained (MKTree::new / new + append / append one by one / clone)
        pub built: &'static str,
        /// root of the tree this one was cloned from (same committed list)
        pub orig_root: Option<Vec<u8>>,
    }
    impl T {
        pub fn tagged(id: u64, tag: u64, n: usize) -> T {
            T::tagged_mode(id, tag, n, 0)
        }
        pub fn tagged_mode(id: u64, tag: u64, n: usize, mode: u64) -> T {
            if mode % 4 == 3 {
                // leaves whose byte order is the reverse of their insertion order (explicit list in the model)
                return T::new_mode(id, (0..n).rev().map(|i| leaf_bytes(tag, i)).collect(), mode);
            }
            let mut t = T::new_mode(id, (0..n).map(|i| leaf_bytes(tag, i)).collect(), mode);
            t.tag = Some(tag);
            t
        }
        /// the same committed list through the other construction paths of MKTree: the operations share
        /// the MMR store and the leaf-position index
        pub fn new_mode(id: u64, leaves: Vec<Vec<u8>>, mode: u64) -> T {
            if mode % 4 == 0 || leaves.is_empty() {
                return T::new(id, leaves);
            }
            take_reg();
            let nodes: Vec<MKTreeNode> = leaves.iter().map(|l| MKTreeNode::new(l.clone())).collect();
            let mut orig_root = None;
            let (tree, built): (MKTree<Obs>, &'static str) = match mode % 4 {
                1 => {
                    // new(prefix) then append(rest) in two batches
                    let a = nodes.len() / 2;
                    let b = a + (nodes.len() - a) / 2;
                    let mut tr = MKTree::<Obs>::new(&nodes[..a]).expect("MKTree::new");
                    tr.append(&nodes[a..b]).expect("append");
                    tr.append(&nodes[b..]).expect("append");
                    (tr, "new(prefix)+append+append")
                }
                2 => {
                    let mut tr = MKTree::<Obs>::new::<MKTreeNode>(&[]).expect("MKTree::new");
                    for n in &nodes {
                        tr.append(std::slice::from_ref(n)).expect("append");
                    }
                    (tr, "new([])+append one by one")
                }
                _ => {
                    let tr = MKTree::<Obs>::new(&nodes).expect("MKTree::new");
                    orig_root = Some(tr.compute_root().expect("root").to_vec());
                    (tr.clone(), "new+clone")
                }
            };
            let reg = take_reg();
            let inner = reg.last().expect("a store was built").clone();
            let mut t = T::from_built(id, leaves, Arc::new(tree), &inner);
            t.built = built;
            t.orig_root = orig_root;
            t
        }
        pub fn coq_leaves(&self) -> String {
            match self.tag {
                Some(tag) => format!("(gl_list 76 {} {})", tag, self.leaves.len()),
                None => coq_ll(&self.leaves),
            }
        }
        pub fn new(id: u64, leaves: Vec<Vec<u8>>) -> T {
            take_reg();
            let tree = MKTree::<Obs>::new(&leaves.iter().map(|l| MKTreeNode::new(l.clone())).collect::<Vec<_>>()).expect("MKTree::new");
            let reg = take_reg();
            assert_eq!(reg.len(), 1);
            T::from_built(id, leaves, Arc::new(tree), &reg[0])
        }
        pub fn from_built(id: u64, leaves: Vec<Vec<u8>>, tree: Arc<MKTree<Obs>>, inner: &Inner) -> T {
            let store: BTreeMap<u64, Vec<u8>> = inner.store.read().unwrap().iter().map(|(p, n)| (*p, n.to_vec())).collect();
            let size = store.len() as u64;
            let root = tree.compute_root().expect("root").to_vec();
            let lp = inner.leaves.read().unwrap();
            let pos: Vec<u64> = leaves.iter().map(|l| *lp.get(&MKTreeNode::new(l.clone())).expect("leaf position")).collect();
            let mut name: HashMap<Vec<u8>, M> = HashMap::new();
            // baggings of the peaks k.. (named first so that store positions win)
            let peaks = get_peaks(size);
            for k in (0..peaks.len()).rev() {
                let mut hs: Vec<Vec<u8>> = peaks[k..].iter().map(|p| store[p].clone()).collect();
                while hs.len() > 1 {
                    let r = hs.pop().unwrap();
                    let l = hs.pop().unwrap();
                    hs.push(merge(&r, &l));
                }
                name.insert(hs.pop().unwrap(), M::Bag(id, k as u64));
            }
            for (p, b) in store.iter().rev() {
                name.insert(b.clone(), M::N(id, *p));
            }
            T { id, tag: None, leaves, tree, root, size, pos, store, name, built: "new", orig_root: None }
        }
    }

    /// a proof as the verifier sees it: bytes and symbolic description side by side
    #[derive(Clone)]
    pub struct P {
        pub root: BV,
        pub leaves: Vec<(u64, BV)>,
        pub size: u64,
        pub items: Vec<BV>,
        /// values forged by moving the boundary between two raw sibling leaves (known finding
        /// C09-raw-leaf-boundary): what the proof may wrongly vouch for inside that class
        pub shifted: Vec<Vec<u8>>,
    }
    fn node_json(b: &[u8]) -> Value {
        json!({ "hash": b })
    }
    fn node_bytes(v: &Value) -> Vec<u8> {
        v["hash"].as_array().expect("hash").iter().map(|x| x.as_u64().unwrap() as u8).collect()
    }
    impl P {
        pub fn json(&self) -> Value {
            json!({
                "inner_root": node_json(&self.root.0),
                "inner_leaves": self.leaves.iter().map(|(p, l)| json!([p, node_json(&l.0)])).collect::<Vec<_>>(),
                "inner_proof_size": self.size,
                "inner_proof_items": self.items.iter().map(|i| node_json(&i.0)).collect::<Vec<_>>(),
            })
        }
        pub fn real(&self) -> MKProof {
            serde_json::from_value(self.json()).expect("MKProof from JSON")
        }
        /// read a real proof, naming every node through the dictionaries of the committed trees
        pub fn of_real(p: &MKProof, names: &dyn Fn(&[u8]) -> M) -> P {
            let v = serde_json::to_value(p).expect("MKProof to JSON");
            let nb = |x: &Value| -> BV {
                let b = node_bytes(x);
                let m = names(&b);
                (b, m)
            };
            P {
                root: nb(&v["inner_root"]),
                leaves: v["inner_leaves"].as_array().unwrap().iter().map(|e| (e[0].as_u64().unwrap(), nb(&e[1]))).collect(),
                size: v["inner_proof_size"].as_u64().unwrap(),
                items: v["inner_proof_items"].as_array().unwrap().iter().map(nb).collect(),
                shifted: vec![],
            }
        }
        pub fn coq(&self) -> String {
            format!(
                "(PS {} {} {} {})",
                self.root.1.coq(),
                cq::list(&self.leaves.iter().map(|(p, l)| cq::pair(&cq::n(*p), &l.1.coq())).collect::<Vec<_>>()),
                cq::n(self.size),
                cq::list(&self.items.iter().map(|i| i.1.coq()).collect::<Vec<_>>())
            )
        }
        pub fn desc(&self) -> Value {
            json!({
                "root": format!("{:?}", self.root.1),
                "leaves": self.leaves.iter().map(|(p, l)| format!("{} -> {}", p, show(l))).collect::<Vec<_>>(),
                "mmr_size": self.size.to_string(),
                "items": self.items.iter().map(|i| format!("{:?}", i.1)).collect::<Vec<_>>(),
            })
        }
    }
    fn show(l: &BV) -> String {
        match &l.1 {
            M::Raw(b) => format!("{:?}", String::from_utf8_lossy(b)),
            m => format!("{:?}", m),
        }
    }

    pub fn leaf_bytes(tag: u64, i: usize) -> Vec<u8> {
        vec![76, (tag >> 8) as u8, tag as u8, (i >> 8) as u8, i as u8]
    }
    pub fn fake_bytes(k: u64) -> Vec<u8> {
        format!("FAKE-{}", k).into_bytes()
    }
    pub fn coq_ll(l: &[Vec<u8>]) -> String {
        cq::list(&l.iter().map(|x| cq::bytes(x)).collect::<Vec<_>>())
    }
    /// names for the nodes of one tree; leaves and unknown bytes are described as raw bytes
    pub fn names_of<'a>(ts: &'a [&'a T]) -> impl Fn(&[u8]) -> M + 'a {
        move |b: &[u8]| {
            for t in ts {
                if let Some(m) = t.name.get(b) {
                    return m.clone();
                }
            }
            M::Raw(b.to_vec())
        }
    }

    #[derive(Clone, Copy, PartialEq, Debug)]
    pub enum Expect {
        Accept,
        Reject,
        Sound,
    }

    /// (verify accepted / rejected / panicked, contains per query, contains per query LIST)
    pub fn run_proof(p: &P, queries: &[BV], multi: &[Vec<BV>]) -> (u8, Vec<Option<bool>>, Vec<Option<bool>>) {
        let real = p.real();
        let r2 = real.clone();
        let v = match hc::catch(std::panic::AssertUnwindSafe(move || r2.verify().is_ok())) {
            Some(true) => 0,
            Some(false) => 1,
            None => 2,
        };
        let c = queries
            .iter()
            .map(|q| {
                let r3 = real.clone();
                let n = MKTreeNode::new(q.0.clone());
                hc::catch(std::panic::AssertUnwindSafe(move || r3.contains(&[n]).is_ok()))
            })
            .collect();
        let cm = multi
            .iter()
            .map(|qs| {
                let r3 = real.clone();
                let ns: Vec<MKTreeNode> = qs.iter().map(|q| MKTreeNode::new(q.0.clone())).collect();
                hc::catch(std::panic::AssertUnwindSafe(move || r3.contains(&ns).is_ok()))
            })
            .collect();
        (v, c, cm)
    }
    fn obs_bools(c: &[Option<bool>]) -> String {
        coq::ol(&c.iter().map(|x| match x { Some(b) => coq::ob(*b), None => coq::oz(2) }).collect::<Vec<_>>())
    }
    fn obs_vc(v: u8, c: &[Option<bool>]) -> String {
        match v {
            2 => coq::ol(&[coq::oz(2)]),
            _ => coq::ol(&[coq::ob(v == 0), obs_bools(c)]),
        }
    }
    fn obs_vcm(v: u8, c: &[Option<bool>], cm: &[Option<bool>]) -> String {
        match v {
            2 => coq::ol(&[coq::oz(2)]),
            _ => coq::ol(&[coq::ob(v == 0), obs_bools(c), obs_bools(cm)]),
        }
    }
    pub const KNOWN_RAW: &str = "C09-raw-leaf-boundary";

    pub struct Mutated {
        pub kind: String,
        pub p: P,
        pub expect: Expect,
    }

    pub const N_MUT: u64 = 18;
    pub fn mutate(t: &T, base: &P, rng: &mut Rng, which: u64) -> Mutated {
        let mut p = base.clone();
        let fresh = rng.below(1 << 20);
        let k = p.leaves.len();
        let j = if k > 0 { rng.below(k as u64) as usize } else { 0 };
        let nleaves = t.leaves.len();
        let other_node = |rng: &mut Rng, not: &[u8]| -> BV {
            let ps: Vec<&u64> = t.store.keys().collect();
            for _ in 0..8 {
                let q = **rng.pick(&ps);
                if t.store[&q] != not {
                    return (t.store[&q].clone(), t.name[&t.store[&q]].clone());
                }
            }
            junk(fresh)
        };
        let fake = |k: u64| -> BV { (fake_bytes(k), M::Raw(fake_bytes(k))) };
        let (kind, expect): (&str, Expect) = match which {
            0 if k > 0 => {
                // the regression witness of the fixed finding: a second entry at an occupied position
                let e = (p.leaves[j].0, fake(fresh));
                match rng.below(3) {
                    0 => p.leaves.push(e),
                    1 => p.leaves.insert(0, e),
                    _ => p.leaves.insert(j + 1, e),
                }
                ("dup-position-fake-leaf", Expect::Reject)
            }
            1 if k > 0 => {
                let e = p.leaves[j].clone();
                p.leaves.push(e);
                ("dup-position-same-leaf", Expect::Accept)
            }
            2 if k > 0 => {
                p.leaves[j].1 = fake(fresh);
                ("leaf-replaced-foreign", Expect::Reject)
            }
            3 if k > 0 && nleaves >= 2 => {
                let mut o = rng.below(nleaves as u64) as usize;
                if t.leaves[o] == p.leaves[j].1 .0 {
                    o = (o + 1) % nleaves;
                }
                p.leaves[j].1 = (t.leaves[o].clone(), M::Raw(t.leaves[o].clone()));
                ("leaf-replaced-other-committed", Expect::Reject)
            }
            4 if k > 0 => {
                // moved: same value, another position
                let cands: Vec<u64> = vec![
                    t.pos[rng.below(nleaves as u64) as usize], p.leaves[j].0 + 1, p.leaves[j].0.wrapping_sub(1), 2, t.size, t.size + 1,
                    u64::MAX, u64::MAX - 1, 1 << 63, (1 << 63) - 1, (1u64 << 32) - 2,
                ];
                let mut o = *rng.pick(&cands);
                if o == p.leaves[j].0 {
                    o = o.wrapping_add(3);
                }
                p.leaves[j].0 = o;
                ("leaf-moved", Expect::Reject)
            }
            5 if k >= 2 => {
                let j2 = (j + 1 + rng.below(k as u64 - 1) as usize) % k;
                let (a, b) = (p.leaves[j].1.clone(), p.leaves[j2].1.clone());
                // (a leaf asked for twice gives two identical entries: swapping them changes nothing)
                let same = a.0 == b.0;
                p.leaves[j].1 = b;
                p.leaves[j2].1 = a;
                ("leaves-swapped", if same { Expect::Sound } else { Expect::Reject })
            }
            6 if k >= 2 => {
                rng.shuffle(&mut p.leaves);
                ("leaves-reordered", Expect::Accept)
            }
            7 if !p.items.is_empty() => {
                let q = rng.below(p.items.len() as u64) as usize;
                p.items[q] = if rng.coin() { junk(fresh) } else { other_node(rng, &base.items[q].0.clone()) };
                ("item-altered", Expect::Reject)
            }
            8 if !p.items.is_empty() => {
                let q = rng.below(p.items.len() as u64) as usize;
                p.items.remove(q);
                ("item-dropped", Expect::Reject)
            }
            9 if !p.items.is_empty() => {
                let q = rng.below(p.items.len() as u64) as usize;
                let c = p.items[q].clone();
                p.items.insert(q, c);
                ("item-duplicated", Expect::Reject)
            }
            10 => {
                let e = if rng.coin() { junk(fresh) } else { other_node(rng, &[]) };
                if rng.coin() { p.items.push(e) } else { p.items.insert(0, e) }
                ("item-added", Expect::Sound)
            }
            11 => {
                p.root = match rng.below(3) {
                    0 => junk(fresh),
                    1 => other_node(rng, &t.root.clone()),
                    _ => (merge(&t.root, &t.root), M::Mrg(Box::new(base.root.1.clone()), Box::new(base.root.1.clone()))),
                };
                ("root-altered", Expect::Reject)
            }
            12 => {
                let cands = [0u64, 1, t.size - 1, t.size + 1, t.size + 2, t.size * 2 + 1, 3, 7, u64::MAX, u64::MAX - 1, 1 << 63, (1 << 63) - 1];
                let mut o = *rng.pick(&cands);
                if o == t.size {
                    o += 3;
                }
                p.size = o;
                ("size-altered", Expect::Sound)
            }
            13 => {
                // no leaf at all: the items are the peaks; vouches for nothing
                let peaks = get_peaks(t.size);
                p.leaves.clear();
                p.items = peaks.iter().map(|q| (t.store[q].clone(), t.name[&t.store[q]].clone())).collect();
                ("no-leaves-peaks-as-items", Expect::Sound)
            }
            16 | 17 if k > 0 && shift_boundary(t, &mut p, j, which == 16, rng) => {
                // known finding C09-raw-leaf-boundary: the claimed leaf and its raw sibling (another
                // claimed leaf, or a proof item) with the boundary between them moved: same concatenation,
                // hence the same parent digest
                ("raw-boundary-shift", Expect::Reject)
            }
            14 if nleaves == 3 => {
                // the 3-leaf root Mrg c (Mrg a b) re-read as a 2-leaf tree: c claimed at position 0
                let ab = t.store[&2].clone();
                p.leaves = vec![(0, (t.leaves[2].clone(), M::Raw(t.leaves[2].clone())))];
                p.size = 3;
                p.items = vec![(ab.clone(), t.name[&ab].clone())];
                ("size-reinterpreted", Expect::Sound)
            }
            _ => {
                p.leaves.clear();
                ("leaves-emptied", Expect::Sound)
            }
        };
        Mutated { kind: kind.into(), p, expect }
    }

    /// move the boundary between claimed leaf j and its raw sibling leaf; false when the leaf has no raw
    /// sibling in this proof (lone peak, or a leaf / item already altered)
    fn shift_boundary(t: &T, p: &mut P, j: usize, shorter: bool, rng: &mut Rng) -> bool {
        let cur = p.leaves[j].1 .0.clone();
        let Some(i) = t.leaves.iter().position(|l| *l == cur) else { return false };
        let sidx = i ^ 1;
        if sidx >= t.leaves.len() || t.pos[i] != p.leaves[j].0 {
            return false;
        }
        let sib = t.leaves[sidx].clone();
        let (left, right) = if i < sidx { (cur.clone(), sib.clone()) } else { (sib.clone(), cur.clone()) };
        let cat = [left.clone(), right].concat();
        if left.len() < 2 || cat.len() < left.len() + 2 {
            return false;
        }
        let cut = if shorter { 1 + rng.below(left.len() as u64 - 1) as usize } else { left.len() + 1 + rng.below((cat.len() - left.len() - 1) as u64) as usize };
        let (nl, nr) = (cat[..cut].to_vec(), cat[cut..].to_vec());
        let (ncur, nsib) = if i < sidx { (nl, nr) } else { (nr, nl) };
        // the sibling is another claimed leaf at its own position, or the raw bytes among the items
        let mut found = false;
        for l in p.leaves.iter_mut() {
            if l.0 == t.pos[sidx] && l.1 .0 == sib {
                l.1 = (nsib.clone(), M::Raw(nsib.clone()));
                found = true;
            }
        }
        if !found {
            if let Some(it) = p.items.iter_mut().find(|it| it.0 == sib) {
                *it = (nsib.clone(), M::Raw(nsib.clone()));
                found = true;
            }
        }
        if !found {
            return false;
        }
        for l in p.leaves.iter_mut() {
            if l.0 == t.pos[i] && l.1 .0 == cur {
                l.1 = (ncur.clone(), M::Raw(ncur.clone()));
            }
        }
        p.shifted.push(ncur);
        p.shifted.push(nsib);
        true
    }

    fn queries_for(t: &T, p: &P, rng: &mut Rng) -> Vec<BV> {
        let mut q: Vec<BV> = p.leaves.iter().map(|l| l.1.clone()).collect();
        q.truncate(6);
        let o = rng.below(t.leaves.len() as u64) as usize;
        q.push((t.leaves[o].clone(), M::Raw(t.leaves[o].clone())));
        let f = rng.below(1 << 20);
        q.push((fake_bytes(f), M::Raw(fake_bytes(f))));
        q.push((t.root.clone(), t.name[&t.root].clone()));
        q
    }

    fn push_proof(sink: &mut Sink, id: u64, t: &T, kind: &str, p: &P, queries: &[BV], expect: Expect, paired: bool) {
        // `contains` of several leaves at once: everything asked about; the claimed leaves alone
        let mut claimed: Vec<BV> = p.leaves.iter().map(|l| l.1.clone()).collect();
        claimed.truncate(6);
        let multi: Vec<Vec<BV>> = vec![queries.to_vec(), claimed.clone()];
        let (v, c, cm) = run_proof(p, queries, &multi);
        let acc = v == 0;
        let committed = |b: &[u8]| t.leaves.iter().any(|l| l == b);
        let mut why = None;
        // values the accepted proof vouches for that are no committed leaves
        let mut bad: Vec<&BV> = vec![];
        if acc && p.root.0 != t.root {
            why = Some("a proof verifies although its root is not the committed root".to_string());
        }
        if acc && why.is_none() {
            for l in p.leaves.iter().filter(|l| !committed(&l.1 .0)) {
                bad.push(&l.1);
                why = Some(format!("MKProof::verify accepted a proof that vouches for {} which is no committed leaf", show(&l.1)));
            }
            for (q, r) in queries.iter().zip(&c) {
                if *r == Some(true) && !committed(&q.0) {
                    bad.push(q);
                    why = Some(format!("verified proof `contains` {} which is no committed leaf", show(q)));
                }
            }
            for (qs, r) in multi.iter().zip(&cm) {
                if *r == Some(true) {
                    if let Some(q) = qs.iter().find(|q| !committed(&q.0)) {
                        bad.push(q);
                        why = Some(format!("verified proof `contains` a list with {} which is no committed leaf", show(q)));
                    }
                }
            }
        }
        // inside the known class: everything wrongly vouched for is a boundary-shifted value
        let known = if why.is_some() && !bad.is_empty() && bad.iter().all(|b| p.shifted.contains(&b.0)) { Some(KNOWN_RAW.to_string()) } else { None };
        if why.is_none() {
            match expect {
                Expect::Accept if !acc => why = Some("an honest proof does not verify".to_string()),
                Expect::Accept if !paired && !p.leaves.iter().zip(&c).take(6).all(|(_, r)| *r == Some(true)) => {
                    why = Some("an honest proof does not contain one of its leaves".to_string())
                }
                Expect::Accept if !paired && cm[1] != Some(true) => why = Some("an honest proof does not contain the list of its leaves".to_string()),
                Expect::Reject if acc && !paired => why = Some("an altered proof component was accepted".to_string()),
                _ => {}
            }
        }
        sink.push(Case {
            id,
            kind: format!("mmr/{}", kind),
            desc: json!({"tree_leaves": t.leaves.len(), "leaf_i": format!("[76,{:?}>>8,..&255,i>>8,i&255]", t.tag), "built": t.built, "proof": p.desc(), "queries": queries.iter().map(show).collect::<Vec<_>>()}),
            model: Some(format!(
                "C09.Model.run_mk_multi {} {} {} {}",
                t.coq_leaves(),
                p.coq(),
                cq::list(&queries.iter().map(|q| q.1.coq()).collect::<Vec<_>>()),
                cq::list(&multi.iter().map(|qs| cq::list(&qs.iter().map(|q| q.1.coq()).collect::<Vec<_>>())).collect::<Vec<_>>())
            )),
            impl_obs: obs_vcm(v, &c, &cm),
            holds: Some(why.is_none()),
            why,
            known,
            nontrivial: t.leaves.len() >= 2,
            key: format!("mmr/{}/{}/{}", kind, t.leaves.len(), p.coq()),
        });
    }

    /// honest proof for the leaves with indices `sel` (as the real MKTree computes it)
    pub fn honest(t: &T, sel: &[usize]) -> Option<P> {
        let ls: Vec<MKTreeNode> = sel.iter().map(|i| MKTreeNode::new(t.leaves[*i].clone())).collect();
        let tree = t.tree.clone();
        let pr = hc::catch(std::panic::AssertUnwindSafe(move || tree.compute_proof(&ls).ok()))??;
        let ts = [t];
        let names = names_of(&ts);
        let mut p = P::of_real(&pr, &names);
        // leaves are described as raw bytes
        for l in p.leaves.iter_mut() {
            l.1 .1 = M::Raw(l.1 .0.clone());
        }
        Some(p)
    }

    fn push_gen(sink: &mut Sink, id: u64, t: &T, kind: &str, sel: &[usize]) {
        let h = honest(t, sel);
        let (obs, holds, why) = match &h {
            None => (coq::ol(&[coq::oz(1)]), Some(sel.is_empty()), if sel.is_empty() { None } else { Some("proof generation failed for committed leaves".to_string()) }),
            Some(p) => {
                let (v, c, _) = run_proof(p, &p.leaves.iter().map(|l| l.1.clone()).collect::<Vec<_>>(), &[]);
                let mut clone_ok = t.orig_root.as_ref().map_or(true, |r| *r == t.root);
                // the production store (MKTreeStoreInMemory) must commit to the same root, also after a
                // clone, and its proof for the same leaves must verify and contain them
                let mem_ok = {
                    let nodes: Vec<MKTreeNode> = t.leaves.iter().map(|l| MKTreeNode::new(l.clone())).collect();
                    let want: Vec<MKTreeNode> = sel.iter().map(|i| nodes[*i].clone()).collect();
                    let root = t.root.clone();
                    hc::catch(std::panic::AssertUnwindSafe(move || {
                        let mt = MKTree::<MKTreeStoreInMemory>::new(&nodes).ok()?;
                        let mt2 = mt.clone();
                        let same = mt.compute_root().ok()?.to_vec() == root && mt2.compute_root().ok()?.to_vec() == root;
                        let pr = mt2.compute_proof(&want).ok()?;
                        Some(same && pr.verify().is_ok() && pr.contains(&want).is_ok() && pr.root().to_vec() == root)
                    }))
                    .flatten()
                        == Some(true)
                };
                clone_ok = clone_ok && mem_ok;
                let ok = v == 0 && c.iter().all(|x| *x == Some(true)) && p.root.0 == t.root && clone_ok;
                let items: Vec<String> = p
                    .items
                    .iter()
                    .map(|i| match &i.1 {
                        M::N(_, q) => coq::ol(&[coq::oz(0), coq::on(*q)]),
                        M::Bag(_, k) => coq::ol(&[coq::oz(1), coq::on(*k)]),
                        _ => coq::ol(&[coq::oz(2)]),
                    })
                    .collect();
                (
                    coq::ol(&[coq::oz(0), coq::oln(&p.leaves.iter().map(|l| l.0).collect::<Vec<_>>()), coq::on(p.size), coq::ol(&items), coq::ob(v == 0)]),
                    Some(ok),
                    if ok { None } else if !clone_ok { Some("an MKTree over the in-memory store, or its clone, does not commit to the same root / does not prove its leaves".to_string()) } else { Some("the generated MKProof does not verify / contain its leaves against the committed root".to_string()) },
                )
            }
        };
        sink.push(Case {
            id,
            kind: format!("mmr/{}", kind),
            desc: json!({"tree_leaves": t.leaves.len(), "selected_leaf_indices": sel}),
            model: Some(format!("C09.Model.run_mk_gen {} {}", t.coq_leaves(), cq::list_n(&sel.iter().map(|i| *i as u64).collect::<Vec<_>>()))),
            impl_obs: obs,
            holds,
            why,
            known: None,
            nontrivial: t.leaves.len() >= 2,
            key: format!("mmr/gen/{}/{:?}", t.leaves.len(), sel),
        });
    }

    fn explore(sink: &mut Sink, rng: &mut Rng, t: &T, sel: &[usize], kind: &str, nmut: usize, npair: usize, all_muts: bool) {
        if let Some(id) = sink.wants() {
            push_gen(sink, id, t, kind, sel);
        }
        let mut base: Option<P> = None;
        let muts: Vec<u64> = if all_muts { (0..N_MUT).collect() } else { (0..nmut).map(|_| rng.below(N_MUT)).collect() };
        for w in muts {
            let mut r = rng.fork();
            let Some(id) = sink.wants() else { continue };
            let b = base.get_or_insert_with(|| honest(t, sel).expect("honest proof"));
            let m = mutate(t, b, &mut r, w);
            let q = queries_for(t, &m.p, &mut r);
            push_proof(sink, id, t, &m.kind, &m.p, &q, m.expect, false);
        }
        for _ in 0..npair {
            let mut r = rng.fork();
            let (w1, w2) = (rng.below(N_MUT), rng.below(N_MUT));
            let Some(id) = sink.wants() else { continue };
            let b = base.get_or_insert_with(|| honest(t, sel).expect("honest proof"));
            let m1 = mutate(t, b, &mut r, w1);
            let m2 = mutate(t, &m1.p, &mut r, w2);
            let q = queries_for(t, &m2.p, &mut r);
            push_proof(sink, id, t, "pair", &m2.p, &q, Expect::Sound, true);
        }
    }

    // ---- nested map: BlockRange -> tree ----
    #[derive(Clone)]
    pub struct MP {
        pub master: P,
        pub subs: Vec<(BlockRange, MP)>,
    }
    fn key_bytes(k: &BlockRange) -> Vec<u8> {
        let n: MKTreeNode = k.clone().into();
        n.to_vec()
    }
    impl MP {
        pub fn json(&self) -> Value {
            json!({
                "master_proof": self.master.json(),
                "sub_proofs": self.subs.iter().map(|(k, p)| json!([serde_json::to_value(k).unwrap(), p.json()])).collect::<Vec<_>>(),
            })
        }
        pub fn real(&self) -> MKMapProof<BlockRange> {
            serde_json::from_value(self.json()).expect("MKMapProof from JSON")
        }
        pub fn of_real(p: &MKMapProof<BlockRange>, names: &dyn Fn(&[u8]) -> M) -> MP {
            let v = serde_json::to_value(p).unwrap();
            MP::of_json(&v, names)
        }
        fn of_json(v: &Value, names: &dyn Fn(&[u8]) -> M) -> MP {
            let master: MKProof = serde_json::from_value(v["master_proof"].clone()).unwrap();
            MP {
                master: P::of_real(&master, names),
                subs: v["sub_proofs"].as_array().unwrap().iter().map(|e| (serde_json::from_value(e[0].clone()).unwrap(), MP::of_json(&e[1], names))).collect(),
            }
        }
        pub fn coq(&self) -> String {
            format!(
                "(MPS {} {})",
                self.master.coq(),
                cq::list(&self.subs.iter().map(|(k, p)| cq::pair(&cq::bytes(&key_bytes(k)), &p.coq())).collect::<Vec<_>>())
            )
        }
        pub fn desc(&self) -> Value {
            json!({"master": self.master.desc(), "subs": self.subs.iter().map(|(k, p)| json!([format!("{}", k), p.desc()])).collect::<Vec<_>>()})
        }
    }

    pub struct Forest {
        pub keys: Vec<BlockRange>,
        pub subs: Vec<T>,
        pub master: T,
        pub map: MKMap<BlockRange, MKMapNode<BlockRange, Obs>, Obs>,
        /// ranges whose value is a full tree (the others are compressed to their root, MKMapNode::TreeNode)
        pub provable: Vec<bool>,
        pub built: &'static str,
    }
    impl Forest {
        pub fn new(tag: u64, sizes: &[usize]) -> Forest {
            Forest::new_mode(tag, sizes, 0, &vec![true; sizes.len()])
        }
        /// mode 0: MKMap::new over full trees.  mode 1 (what the aggregator's prover does): MKMap::new over
        /// the range ROOTS, clone, then replace the provable ranges by their full trees.  mode 2: new over
        /// full trees, compress, replace.  mode 3: new(&[]) then insert in key order.
        pub fn new_mode(tag: u64, sizes: &[usize], mode: u64, provable: &[bool]) -> Forest {
            let keys: Vec<BlockRange> = (0..sizes.len() as u64).map(|i| BlockRange::from(i * 15..(i + 1) * 15)).collect();
            let subs: Vec<T> = sizes.iter().enumerate().map(|(i, n)| T::tagged(i as u64 + 1, tag * 10 + i as u64, *n)).collect();
            take_reg();
            type Node = MKMapNode<BlockRange, Obs>;
            let full = |i: usize| -> Node { MKMapNode::Tree(subs[i].tree.clone()) };
            let rootn = |i: usize| -> Node { MKMapNode::TreeNode(MKTreeNode::new(subs[i].root.clone())) };
            let provable: Vec<bool> = if mode % 4 == 0 { vec![true; sizes.len()] } else { provable.to_vec() };
            let (map, built): (MKMap<BlockRange, Node, Obs>, &'static str) = match mode % 4 {
                0 => {
                    let entries: Vec<(BlockRange, Node)> = (0..keys.len()).map(|i| (keys[i].clone(), full(i))).collect();
                    (MKMap::new(&entries).expect("MKMap::new"), "new(trees)")
                }
                1 => {
                    let entries: Vec<(BlockRange, Node)> = (0..keys.len()).map(|i| (keys[i].clone(), rootn(i))).collect();
                    let cache = MKMap::<BlockRange, Node, Obs>::new(&entries).expect("MKMap::new");
                    let mut m = cache.clone();
                    for i in 0..keys.len() {
                        if provable[i] {
                            m.replace(keys[i].clone(), full(i)).expect("replace");
                        }
                    }
                    (m, "new(roots)+clone+replace")
                }
                2 => {
                    let entries: Vec<(BlockRange, Node)> = (0..keys.len()).map(|i| (keys[i].clone(), full(i))).collect();
                    let mut m = MKMap::<BlockRange, Node, Obs>::new(&entries).expect("MKMap::new");
                    m.compress().expect("compress");
                    for i in 0..keys.len() {
                        if provable[i] {
                            m.replace(keys[i].clone(), full(i)).expect("replace");
                        }
                    }
                    (m, "new(trees)+compress+replace")
                }
                _ => {
                    let mut m = MKMap::<BlockRange, Node, Obs>::new(&[]).expect("MKMap::new");
                    for i in 0..keys.len() {
                        m.insert(keys[i].clone(), if provable[i] { full(i) } else { rootn(i) }).expect("insert");
                    }
                    (m, "new([])+insert")
                }
            };
            let reg = take_reg();
            assert!(!reg.is_empty(), "the map builds a master tree");
            let reg = vec![reg.last().unwrap().clone()];
            let master_leaves: Vec<Vec<u8>> = keys.iter().zip(&subs).map(|(k, t)| merge(&key_bytes(k), &t.root)).collect();
            // the master tree is inside the map: rebuild its description from the observed store
            let store: BTreeMap<u64, Vec<u8>> = reg[0].store.read().unwrap().iter().map(|(p, n)| (*p, n.to_vec())).collect();
            let lp = reg[0].leaves.read().unwrap();
            let pos: Vec<u64> = master_leaves.iter().map(|l| *lp.get(&MKTreeNode::new(l.clone())).expect("master leaf position")).collect();
            let size = store.len() as u64;
            let root = map.compute_root().unwrap().to_vec();
            let mut name: HashMap<Vec<u8>, M> = HashMap::new();
            let peaks = get_peaks(size);
            for k in (0..peaks.len()).rev() {
                let mut hs: Vec<Vec<u8>> = peaks[k..].iter().map(|p| store[p].clone()).collect();
                while hs.len() > 1 {
                    let r = hs.pop().unwrap();
                    let l = hs.pop().unwrap();
                    hs.push(merge(&r, &l));
                }
                name.insert(hs.pop().unwrap(), M::Bag(0, k as u64));
            }
            for (p, b) in store.iter().rev() {
                name.insert(b.clone(), M::N(0, *p));
            }
            drop(lp);
            let dummy = Arc::new(MKTree::<Obs>::new(&[MKTreeNode::new(vec![0])]).unwrap());
            take_reg();
            let master = T { id: 0, tag: None, leaves: master_leaves, tree: dummy, root, size, pos, store, name, built: "map", orig_root: None };
            Forest { keys, subs, master, map, provable, built }
        }
        pub fn coq_ranges(&self) -> String {
            cq::list(&self.keys.iter().zip(&self.subs).map(|(k, t)| cq::pair(&cq::bytes(&key_bytes(k)), &t.coq_leaves())).collect::<Vec<_>>())
        }
        pub fn names(&self) -> impl Fn(&[u8]) -> M + '_ {
            move |b: &[u8]| {
                if let Some(m) = self.master.name.get(b) {
                    return m.clone();
                }
                for t in &self.subs {
                    if let Some(m) = t.name.get(b) {
                        // leaves of the sub-trees are described as raw bytes
                        if t.leaves.iter().any(|l| l == b) {
                            return M::Raw(b.to_vec());
                        }
                        return m.clone();
                    }
                }
                M::Raw(b.to_vec())
            }
        }
        pub fn honest(&self, leaves: &[Vec<u8>]) -> Option<MP> {
            let ls: Vec<MKTreeNode> = leaves.iter().map(|l| MKTreeNode::new(l.clone())).collect();
            let pr = self.map.compute_proof(&ls).ok()?;
            let names = self.names();
            Some(MP::of_real(&pr, &names))
        }
        pub fn committed(&self, b: &[u8]) -> bool {
            self.subs.iter().any(|t| t.leaves.iter().any(|l| l == b)) || self.master.leaves.iter().any(|l| l == b)
        }
    }

    fn run_map(p: &MP, queries: &[BV]) -> (u8, Vec<Option<bool>>) {
        let real = p.real();
        let r2 = real.clone();
        let v = match hc::catch(std::panic::AssertUnwindSafe(move || r2.verify().is_ok())) {
            Some(true) => 0,
            Some(false) => 1,
            None => 2,
        };
        let c = queries
            .iter()
            .map(|q| {
                let r3 = real.clone();
                let n = MKTreeNode::new(q.0.clone());
                hc::catch(std::panic::AssertUnwindSafe(move || r3.contains(&n).is_ok()))
            })
            .collect();
        (v, c)
    }

    fn all_leaf_values(p: &MP, out: &mut Vec<BV>) {
        for l in &p.master.leaves {
            out.push(l.1.clone());
        }
        for (_, s) in &p.subs {
            all_leaf_values(s, out);
        }
    }

    fn all_shifted(p: &MP, out: &mut Vec<Vec<u8>>) {
        out.extend(p.master.shifted.iter().cloned());
        for (_, s) in &p.subs {
            all_shifted(s, out);
        }
    }

    /// Symbolic names are a function of the BYTES: a mutation that rebuilt an entry of the master proof and
    /// tagged it `Raw` although its bytes are a node digest of the master tree (the master's leaves are merged
    /// nodes, not raw strings) is re-tagged with that node's name, so that the model sees the same value as
    /// the code does.
    fn renamed_master(f: &Forest, p: &MP) -> MP {
        let fix = |b: &BV| -> BV {
            match (&b.1, f.master.name.get(&b.0)) {
                (M::Raw(_), Some(m)) => (b.0.clone(), m.clone()),
                _ => b.clone(),
            }
        };
        let mut q = p.clone();
        q.master.root = fix(&q.master.root);
        q.master.items = q.master.items.iter().map(fix).collect();
        q.master.leaves = q.master.leaves.iter().map(|(pos, b)| (*pos, fix(b))).collect();
        q
    }
    fn push_map(sink: &mut Sink, id: u64, f: &Forest, kind: &str, p: &MP, queries: &[BV], expect: Expect) {
        let p = &renamed_master(f, p);
        let queries: Vec<BV> = queries
            .iter()
            .map(|b| match (&b.1, f.master.name.get(&b.0)) {
                (M::Raw(_), Some(m)) => (b.0.clone(), m.clone()),
                _ => b.clone(),
            })
            .collect();
        let queries = &queries[..];
        let (v, c) = run_map(p, queries);
        let acc = v == 0;
        let mut why = None;
        if acc && p.master.root.0 != f.master.root {
            why = Some("a map proof verifies although its root is not the committed root".to_string());
        }
        let mut bad: Vec<Vec<u8>> = vec![];
        if acc && why.is_none() {
            let mut vals = vec![];
            all_leaf_values(p, &mut vals);
            // what a verified proof vouches for: everything `contains` answers true to
            for (q, r) in queries.iter().zip(&c) {
                if *r == Some(true) && !f.committed(&q.0) {
                    bad.push(q.0.clone());
                    why = Some(format!("verified map proof `contains` {} which is no committed leaf", show(q)));
                }
            }
            let real = p.real();
            for l in vals {
                if real.contains(&MKTreeNode::new(l.0.clone())).is_ok() && !f.committed(&l.0) {
                    bad.push(l.0.clone());
                    why = Some(format!("verified map proof vouches for {} which is no committed leaf", show(&l)));
                }
            }
        }
        let mut shifted = vec![];
        all_shifted(p, &mut shifted);
        let known = if why.is_some() && !bad.is_empty() && bad.iter().all(|b| shifted.contains(b)) { Some(KNOWN_RAW.to_string()) } else { None };
        if why.is_none() {
            match expect {
                Expect::Accept if !acc => why = Some("an honest map proof does not verify".to_string()),
                Expect::Reject if acc => why = Some("an altered map proof component was accepted".to_string()),
                _ => {}
            }
        }
        sink.push(Case {
            id,
            kind: format!("map/{}", kind),
            desc: json!({"ranges": f.subs.iter().map(|t| t.leaves.len()).collect::<Vec<_>>(), "map_built": f.built, "ranges_with_full_tree": f.provable, "proof": p.desc(), "queries": queries.iter().map(show).collect::<Vec<_>>()}),
            model: Some(format!("C09.Model.run_map {} {} {}", f.coq_ranges(), p.coq(), cq::list(&queries.iter().map(|q| q.1.coq()).collect::<Vec<_>>()))),
            impl_obs: obs_vc(v, &c),
            holds: Some(why.is_none()),
            why,
            known,
            nontrivial: f.subs.len() >= 2,
            key: format!("map/{}/{}", kind, p.coq()),
        });
    }

    const N_MAPMUT: u64 = 11;
    fn mutate_map(f: &Forest, base: &MP, rng: &mut Rng, which: u64) -> (String, MP, Expect) {
        let mut p = base.clone();
        let ns = p.subs.len();
        let s = if ns > 0 { rng.below(ns as u64) as usize } else { 0 };
        match which {
            0 if ns > 0 => {
                // mutate the proof of one range
                let key = p.subs[s].0.clone();
                let ti = f.keys.iter().position(|k| *k == key).unwrap();
                let w = rng.below(N_MUT);
                let m = mutate(&f.subs[ti], &p.subs[s].1.master, rng, w);
                p.subs[s].1.master = m.p;
                (format!("sub:{}", m.kind), p, if m.expect == Expect::Reject { Expect::Reject } else { Expect::Sound })
            }
            1 => {
                let w = rng.below(N_MUT);
                let m = mutate(&f.master, &p.master, rng, w);
                p.master = m.p;
                // a master entry replaced/moved breaks the linkage of its sub-proof
                (format!("master:{}", m.kind), p, Expect::Sound)
            }
            2 if ns > 0 => {
                // a proof for another committed tree hung under this key
                let other = (0..f.subs.len()).find(|i| f.keys[*i] != p.subs[s].0);
                match other {
                    Some(o) => {
                        let q = honest(&f.subs[o], &[0]).unwrap();
                        let names = f.names();
                        let mut q2 = q.clone();
                        q2.root.1 = names(&q.root.0);
                        for i in q2.items.iter_mut() {
                            i.1 = names(&i.0);
                        }
                        p.subs[s].1 = MP { master: q2, subs: vec![] };
                        ("sub-proof-of-other-range".into(), p, Expect::Reject)
                    }
                    None => {
                        p.subs[s].0 = BlockRange::from(9000..9015);
                        ("key-relabelled".into(), p, Expect::Reject)
                    }
                }
            }
            3 if ns > 0 => {
                // a self-made tree with a foreign leaf under a committed key
                let k = rng.below(1 << 20);
                let t2 = T::new(99, vec![fake_bytes(k), fake_bytes(k + 1)]);
                let mut q = honest(&t2, &[0]).unwrap();
                let fix = |b: &BV| -> BV {
                    if b.0 == fake_bytes(k) || b.0 == fake_bytes(k + 1) { (b.0.clone(), M::Raw(b.0.clone())) } else { (b.0.clone(), M::Mrg(Box::new(M::Raw(fake_bytes(k))), Box::new(M::Raw(fake_bytes(k + 1))))) }
                };
                q.root = fix(&q.root);
                q.items = q.items.iter().map(fix).collect();
                p.subs[s].1 = MP { master: q, subs: vec![] };
                ("sub-proof-of-foreign-tree".into(), p, Expect::Reject)
            }
            4 if ns > 0 => {
                let o = rng.below(40);
                let mut nk = BlockRange::from(o * 15..(o + 1) * 15);
                if nk == p.subs[s].0 {
                    nk = BlockRange::from(600..615);
                }
                p.subs[s].0 = nk;
                ("key-relabelled".into(), p, Expect::Reject)
            }
            5 if ns >= 2 => {
                let s2 = (s + 1) % ns;
                let (a, b) = (p.subs[s].0.clone(), p.subs[s2].0.clone());
                p.subs[s].0 = b;
                p.subs[s2].0 = a;
                ("keys-swapped".into(), p, Expect::Reject)
            }
            6 if ns > 0 => {
                p.subs.remove(s);
                ("sub-proof-dropped".into(), p, Expect::Sound)
            }
            7 if ns > 0 => {
                let c = p.subs[s].clone();
                p.subs.push(c);
                ("sub-proof-duplicated".into(), p, Expect::Accept)
            }
            9 | 10 if ns > 0 => {
                // the SAME key twice: a self-made tree with a foreign leaf next to the genuine sub-proof of that
                // key, before it (9) or after it (10).  Every listed sub-proof must be verified and linked to the
                // master proof - a verifier that first collects the sub-proofs into a map keeps only one of them,
                // while `contains` still walks the whole list
                let k = rng.below(1 << 20);
                let t2 = T::new(99, vec![fake_bytes(k), fake_bytes(k + 1)]);
                let mut q = honest(&t2, &[0]).unwrap();
                let fix = |b: &BV| -> BV {
                    if b.0 == fake_bytes(k) || b.0 == fake_bytes(k + 1) { (b.0.clone(), M::Raw(b.0.clone())) } else { (b.0.clone(), M::Mrg(Box::new(M::Raw(fake_bytes(k))), Box::new(M::Raw(fake_bytes(k + 1))))) }
                };
                q.root = fix(&q.root);
                q.items = q.items.iter().map(fix).collect();
                let key = p.subs[s].0.clone();
                let at = if which == 9 { s } else { s + 1 };
                p.subs.insert(at, (key, MP { master: q, subs: vec![] }));
                (if which == 9 { "same-key-foreign-sub-proof-first" } else { "same-key-foreign-sub-proof-last" }.into(), p, Expect::Reject)
            }
            _ => {
                // an extra foreign sub-proof under a fresh key, not linked into the master proof
                let k = rng.below(1 << 20);
                let t2 = T::new(99, vec![fake_bytes(k)]);
                let mut q = honest(&t2, &[0]).unwrap();
                q.root = (q.root.0.clone(), M::Raw(q.root.0.clone()));
                p.subs.push((BlockRange::from(9000..9015), MP { master: q, subs: vec![] }));
                ("unlinked-foreign-sub-proof".into(), p, Expect::Reject)
            }
        }
    }

    pub fn run(sink: &mut Sink, rng: &mut Rng, thorough: bool) {
        // 0. the witness of the fixed finding, always first
        {
            let t = T::tagged(0, 0, 5);
            if let Some(id) = sink.wants() {
                let mut p = honest(&t, &[1, 2]).unwrap();
                p.leaves.push((p.leaves[0].0, (b"FAKE".to_vec(), M::Raw(b"FAKE".to_vec()))));
                let q = vec![(b"FAKE".to_vec(), M::Raw(b"FAKE".to_vec())), (t.leaves[1].clone(), M::Raw(t.leaves[1].clone()))];
                push_proof(sink, id, &t, "dup-position-fake-leaf", &p, &q, Expect::Reject, false);
            }
        }
        // 1. exhaustive small trees: every n <= NMAX, every non-empty subset
        let nmax = if thorough { 9 } else { 8 };
        for n in 1..=nmax {
            let t = T::tagged_mode(0, n as u64, n, n as u64);
            for mask in 1u32..(1 << n) {
                let sel: Vec<usize> = (0..n).filter(|i| mask >> i & 1 == 1).collect();
                let (nm, np) = if thorough { (3, 1) } else { (1, if mask % 4 == 0 { 1 } else { 0 }) };
                let all = n <= 4 && (thorough || mask % 2 == 1);
                explore(sink, rng, &t, &sel, "exhaustive", nm, np, all);
            }
            if let Some(id) = sink.wants() {
                push_gen(sink, id, &t, "gen-empty", &[]);
            }
            for rep in [vec![0, 0], vec![n - 1, 0, n - 1]] {
                if let Some(id) = sink.wants() {
                    push_gen(sink, id, &t, "gen-repeated", &rep);
                }
            }
        }
        // 2. sampled sizes
        let (ntrees, top) = if thorough { (120, 500) } else { (24, 260) };
        for k in 0..ntrees {
            let n = match k % 5 {
                0 => rng.range(9, 40),
                1 => 1 << rng.range(4, 8),
                2 => (1 << rng.range(4, 8)) + 1,
                3 => (1 << rng.range(4, 8)) - 1,
                _ => rng.range(9, top),
            } as usize;
            let t = T::tagged_mode(0, 1000 + k, n, k / 5 + 1);
            for s in 0..3 {
                let mut sel: Vec<usize> = match (s + k) % 4 {
                    0 => (0..rng.range(1, 10.min(n as u64))).map(|_| rng.below(n as u64) as usize).collect(),
                    1 => vec![n - 1],
                    2 => {
                        let c = rng.range(1, 5.min(n as u64)) as usize;
                        let mut v: Vec<usize> = (n - c..n).collect();
                        v.push(0);
                        v
                    }
                    _ => (0..rng.range(1, 30.min(n as u64))).map(|_| rng.below(n as u64) as usize).collect(),
                };
                sel.sort();
                sel.dedup();
                if rng.coin() {
                    rng.shuffle(&mut sel);
                }
                // a leaf asked for twice (the position list handed to gen_proof has a duplicate)
                if rng.chance(1, 4) {
                    let r = sel[rng.below(sel.len() as u64) as usize];
                    let at = rng.below(sel.len() as u64 + 1) as usize;
                    sel.insert(at, r);
                }
                explore(sink, rng, &t, &sel, "sampled", if thorough { 4 } else { 3 }, 1, false);
            }
        }
        // 3. nested maps of <= 6 ranges
        let nforests = if thorough { 60 } else { 14 };
        for k in 0..nforests {
            let nr = 1 + (k % 6) as usize;
            let sizes: Vec<usize> = (0..nr).map(|_| rng.range(1, 9) as usize).collect();
            // how the map came to be (the aggregator keeps range roots and swaps full trees in) and which
            // ranges hold a full tree
            let mut provable: Vec<bool> = (0..nr).map(|_| rng.chance(2, 3)).collect();
            let forced = rng.below(nr as u64) as usize;
            provable[forced] = true;
            let f = Forest::new_mode(500 + k, &sizes, k / 2, &provable);
            let shapes = if thorough { 4 } else { 3 };
            for _ in 0..shapes {
                // leaves from a random non-empty subset of the ranges
                let mut leaves: Vec<Vec<u8>> = vec![];
                for (ti, t) in f.subs.iter().enumerate() {
                    let take = rng.chance(2, 3);
                    let cnt = rng.range(1, 3);
                    let picks: Vec<usize> = (0..cnt).map(|_| rng.below(t.leaves.len() as u64) as usize).collect();
                    if take && f.provable[ti] {
                        for q in picks {
                            leaves.push(t.leaves[q].clone());
                        }
                    }
                }
                if leaves.is_empty() {
                    let ti = f.provable.iter().position(|b| *b).unwrap();
                    leaves.push(f.subs[ti].leaves[0].clone());
                }
                leaves.sort();
                leaves.dedup();
                let base = f.honest(&leaves);
                let mk_queries = |rng: &mut Rng| -> Vec<BV> {
                    let mut q: Vec<BV> = leaves.iter().take(4).map(|l| (l.clone(), M::Raw(l.clone()))).collect();
                    let t = &f.subs[rng.below(f.subs.len() as u64) as usize];
                    let o = t.leaves[rng.below(t.leaves.len() as u64) as usize].clone();
                    q.push((o.clone(), M::Raw(o)));
                    let fk = rng.below(1 << 20);
                    q.push((fake_bytes(fk), M::Raw(fake_bytes(fk))));
                    q.push((fake_bytes(fk + 1), M::Raw(fake_bytes(fk + 1))));
                    let names = f.names();
                    q.push((f.master.leaves[0].clone(), names(&f.master.leaves[0])));
                    q.push((t.root.clone(), names(&t.root)));
                    q.push((key_bytes(&f.keys[0]), M::Raw(key_bytes(&f.keys[0]))));
                    q
                };
                {
                    let mut r = rng.fork();
                    if let Some(id) = sink.wants() {
                        match base.as_ref() {
                            Some(b) => {
                                let q = mk_queries(&mut r);
                                push_map(sink, id, &f, "honest", b, &q, Expect::Accept);
                            }
                            None => sink.push(Case {
                                id,
                                kind: "map/honest".to_string(),
                                desc: json!({"ranges": f.subs.iter().map(|t| t.leaves.len()).collect::<Vec<_>>(), "map_built": f.built, "ranges_with_full_tree": f.provable, "leaves": leaves.iter().map(hex::encode).collect::<Vec<_>>()}),
                                model: None,
                                impl_obs: coq::ol(&[coq::oz(1)]),
                                holds: Some(false),
                                why: Some("MKMap::compute_proof fails for committed leaves of ranges that hold a full tree".to_string()),
                                known: None,
                                nontrivial: f.subs.len() >= 2,
                                key: format!("map/honest-failed/{:?}", leaves),
                            }),
                        }
                    }
                }
                if base.is_none() {
                    for _ in 0..(if thorough { N_MAPMUT + 4 } else { N_MAPMUT }) {
                        let _ = rng.fork();
                        let _ = rng.below(N_MAPMUT);
                        let _ = sink.wants();
                    }
                    continue;
                }
                // every mutation kind once per honest proof (systematic), plus a few random repeats in the thorough tier
                let nm = if thorough { N_MAPMUT + 4 } else { N_MAPMUT };
                for mi in 0..nm {
                    let mut r = rng.fork();
                    let drawn = rng.below(N_MAPMUT);
                    let w = if mi < N_MAPMUT { mi } else { drawn };
                    let Some(id) = sink.wants() else { continue };
                    let b = base.as_ref().expect("honest map proof");
                    let (kind, p, e) = mutate_map(&f, b, &mut r, w);
                    let mut q = mk_queries(&mut r);
                    // also ask about everything the mutated proof carries
                    let mut vals = vec![];
                    all_leaf_values(&p, &mut vals);
                    for v in vals.into_iter().take(6) {
                        if !q.iter().any(|x| x.0 == v.0) {
                            q.push(v);
                        }
                    }
                    let kind = if kind.starts_with("sub:") || kind.starts_with("master:") { kind.split(':').next().unwrap().to_string() + "-proof-mutated" } else { kind };
                    push_map(sink, id, &f, &kind, &p, &q, e);
                }
            }
        }
    }
}

fn main() {
    let args = hc::parse_args();
    let mut rng = Rng::new(args.seed);
    let mut sink = Sink::new(&args);
    mmr::run(&mut sink, &mut rng, args.thorough);
    stm::run(&mut sink, &mut rng, args.thorough);
    stm::run_real(&mut sink, &mut rng, args.thorough);
    sink.finish();
}
