//! C09 correspondence harness: Merkle membership proofs.
//!  * STM signer-registration tree (batch path) through the cfg hook `mithril_stm::verif_export`;
//!  * `MKProof` / `MKMapProof` of `mithril-merkle-tree` through their public API (proof objects are
//!    mutated through their serde/JSON form, the form in which they travel).
//! Every case prints the model call (digests described symbolically: the harness knows which
//! committed node every honest value is) and the implementation's verdict, and judges the property
//! itself from provenance: acceptance implies every claimed leaf is the committed leaf at its
//! stated position; honest proofs must verify.
use hc::{coq, Case, Rng, Sink};
use mithril_stm::verif_export as vx;
use std::collections::HashMap;

// ------------------------------------------------------------------------------------------------
// STM tree
// ------------------------------------------------------------------------------------------------
mod stm {
    use super::*;

    /// A small Copy leaf: up to 72 bytes.
    #[derive(Clone, Copy, Debug, PartialEq, Eq)]
    pub struct Lf {
        len: u8,
        b: [u8; 72],
    }
    impl Lf {
        pub fn new(x: &[u8]) -> Self {
            let mut b = [0u8; 72];
            b[..x.len()].copy_from_slice(x);
            Lf { len: x.len() as u8, b }
        }
        pub fn bytes(&self) -> Vec<u8> {
            self.b[..self.len as usize].to_vec()
        }
    }
    impl vx::MerkleTreeLeaf for Lf {
        fn as_bytes_for_merkle_tree(&self) -> Vec<u8> {
            self.bytes()
        }
    }

    /// digest of arbitrary bytes (<= 72) computed by the real code: root of the one-leaf tree
    pub fn h(x: &[u8]) -> Vec<u8> {
        vx::merkle_tree_batch_commitment(&vx::merkle_tree_new(&[Lf::new(x)])).root
    }
    pub fn h2(a: &[u8], b: &[u8]) -> Vec<u8> {
        let mut x = a.to_vec();
        x.extend_from_slice(b);
        h(&x)
    }

    /// symbolic description of a digest (Coq type C09.Model.sspec)
    #[derive(Clone, Debug)]
    pub enum S {
        N(u64),
        Lf(Vec<u8>),
        Nd(Box<S>, Box<S>),
        Junk(u64),
        RootOf(Vec<Vec<u8>>),
    }
    impl S {
        pub fn coq(&self) -> String {
            match self {
                S::N(p) => format!("(SN {})", coq::n(*p)),
                S::Lf(x) => format!("(SLf {})", coq::bytes(x)),
                S::Nd(a, b) => format!("(SNd {} {})", a.coq(), b.coq()),
                S::Junk(k) => format!("(SJunk {})", coq::n(*k)),
                S::RootOf(l) => format!("(SRootOf {})", coq_ll(l)),
            }
        }
    }
    pub fn coq_ll(l: &[Vec<u8>]) -> String {
        coq::list(&l.iter().map(|x| coq::bytes(x)).collect::<Vec<_>>())
    }
    pub fn junk_bytes(k: u64) -> Vec<u8> {
        // 32 bytes that are no digest of anything used here
        let mut r = Rng::new(0xC09_0000 + k);
        r.bytes(32)
    }

    /// committed leaf i of the tree tagged `tag`
    pub fn payload(tag: u8, i: usize) -> Vec<u8> {
        vec![1, tag, (i >> 8) as u8, i as u8]
    }
    pub fn foreign(k: u64) -> Vec<u8> {
        vec![2, (k >> 16) as u8, (k >> 8) as u8, k as u8, 7]
    }

    pub struct Tree {
        pub payloads: Vec<Vec<u8>>,
        pub t: vx::MerkleTree<vx::TreeDigest, Lf>,
        pub root: Vec<u8>,
        /// heap position -> digest, for every node the real tree ever emits (+ the root)
        pub node: HashMap<u64, Vec<u8>>,
        /// digest -> smallest heap position
        pub pos_of: HashMap<Vec<u8>, u64>,
    }
    pub fn np2(n: usize) -> u64 {
        (n as u64).next_power_of_two()
    }
    impl Tree {
        pub fn new(tag: u8, n: usize) -> Tree {
            let payloads: Vec<Vec<u8>> = (0..n).map(|i| payload(tag, i)).collect();
            let leaves: Vec<Lf> = payloads.iter().map(|p| Lf::new(p)).collect();
            let t = vx::merkle_tree_new(&leaves);
            let root = vx::merkle_tree_batch_commitment(&t).root;
            let mut node: HashMap<u64, Vec<u8>> = HashMap::new();
            node.insert(0, root.clone());
            let nr = n as u64 + np2(n) - 1;
            let off = np2(n) - 1;
            for i in 0..n {
                let (vals, _) = vx::batch_path_parts(&vx::merkle_tree_batch_path(&t, vec![i]));
                // positions of the emitted siblings along the walk from the leaf to the root
                let mut p = off + i as u64;
                let mut k = 0;
                while p > 0 {
                    let s = if p % 2 == 1 { p + 1 } else { p - 1 };
                    if s < nr {
                        node.insert(s, vals[k].clone());
                        k += 1;
                    }
                    p = (p - 1) / 2;
                }
                assert_eq!(k, vals.len(), "single-leaf path has an unexpected number of values");
            }
            // the leaf digests themselves (a leaf is the sibling of its sibling; the last odd one is not)
            for i in 0..n {
                node.entry(off + i as u64).or_insert_with(|| h(&payloads[i]));
            }
            let mut pos_of: HashMap<Vec<u8>, u64> = HashMap::new();
            for (p, d) in &node {
                let e = pos_of.entry(d.clone()).or_insert(*p);
                if *p < *e {
                    *e = *p;
                }
            }
            Tree { payloads, t, root, node, pos_of }
        }
        pub fn n(&self) -> usize {
            self.payloads.len()
        }
    }

    /// a verification input: everything the verifier sees, bytes and symbolic description side by side
    #[derive(Clone)]
    pub struct VIn {
        pub root: (Vec<u8>, S),
        pub nrl: u64,
        pub leaves: Vec<Vec<u8>>,
        pub vals: Vec<(Vec<u8>, S)>,
        pub idxs: Vec<u64>,
    }

    /// 0 accept, 1 reject, 2 panic
    pub fn verify(v: &VIn) -> u8 {
        let v = v.clone();
        let r = hc::catch(move || {
            let c = vx::batch_commitment_new::<Lf>(v.root.0.clone(), v.nrl as usize);
            let p = vx::batch_path_new(
                v.vals.iter().map(|x| x.0.clone()).collect(),
                v.idxs.iter().map(|i| *i as usize).collect(),
            );
            let ls: Vec<Lf> = v.leaves.iter().map(|x| Lf::new(x)).collect();
            vx::batch_commitment_verify(&c, &ls, &p).is_ok()
        });
        match r {
            Some(true) => 0,
            Some(false) => 1,
            None => 2,
        }
    }

    pub fn model_verify(t: &Tree, v: &VIn) -> String {
        format!(
            "C09.Model.run_stm_verify {} {} {} {} {} {}",
            coq_ll(&t.payloads),
            v.root.1.coq(),
            coq::n(v.nrl),
            coq_ll(&v.leaves),
            coq::list(&v.vals.iter().map(|x| x.1.coq()).collect::<Vec<_>>()),
            coq::list_n(&v.idxs)
        )
    }

    /// honest generation; None = panic
    pub fn gen(t: &Tree, idxs: &[u64]) -> Option<(Vec<Vec<u8>>, Vec<u64>)> {
        let tt = t.t.clone();
        let ix: Vec<usize> = idxs.iter().map(|i| *i as usize).collect();
        hc::catch(std::panic::AssertUnwindSafe(move || {
            let (v, i) = vx::batch_path_parts(&vx::merkle_tree_batch_path(&tt, ix));
            (v, i.into_iter().map(|x| x as u64).collect())
        }))
    }

    pub fn honest_input(t: &Tree, idxs: &[u64]) -> VIn {
        let (vals, ix) = gen(t, idxs).expect("honest generation panicked");
        VIn {
            root: (t.root.clone(), S::N(0)),
            nrl: t.n() as u64,
            leaves: ix.iter().map(|i| t.payloads[*i as usize].clone()).collect(),
            vals: vals
                .into_iter()
                .map(|v| {
                    let p = *t.pos_of.get(&v).expect("generated value is no node of the tree");
                    (v, S::N(p))
                })
                .collect(),
            idxs: ix,
        }
    }

    /// the property judged from provenance: every claimed leaf is the committed leaf at its index
    pub fn claims_true(t: &Tree, v: &VIn) -> bool {
        v.leaves.len() == v.idxs.len()
            && v.idxs.iter().zip(&v.leaves).all(|(i, l)| (*i as usize) < t.n() && *i < t.n() as u64 && t.payloads[*i as usize] == *l)
    }

    #[derive(Clone, Copy, PartialEq, Debug)]
    pub enum Expect {
        /// must verify (honest, or honest with unread extra values)
        Accept,
        /// must not verify (a used path value, the root or a leaf/position was altered)
        Reject,
        /// only soundness is judged: acceptance implies the claims are true
        Sound,
        /// outside the separation assumption (payload equal to the padding pre-image): not judged
        NotJudged,
    }

    pub struct Mutated {
        pub kind: String,
        pub v: VIn,
        pub expect: Expect,
    }

    /// one structured mutation of an honest input
    pub fn mutate(t: &Tree, base: &VIn, rng: &mut Rng, which: u64) -> Mutated {
        let n = t.n() as u64;
        let mut v = base.clone();
        let k = v.idxs.len().min(v.leaves.len());
        let j = rng.below(k as u64) as usize;
        let fresh = rng.below(1 << 20);
        let some_node = |rng: &mut Rng, not: &[u8]| -> (Vec<u8>, S) {
            // a committed node with a digest different from `not`
            let mut ps: Vec<&u64> = t.node.keys().collect();
            ps.sort();
            for _ in 0..8 {
                let p = **rng.pick(&ps);
                if t.node[&p] != not {
                    return (t.node[&p].clone(), S::N(t.pos_of[&t.node[&p]]));
                }
            }
            (junk_bytes(fresh), S::Junk(fresh))
        };
        let (kind, expect): (&str, Expect) = match which {
            0 => {
                v.leaves[j] = foreign(fresh);
                ("leaf-replaced-foreign", Expect::Reject)
            }
            1 => {
                if n < 2 {
                    v.leaves[j] = foreign(fresh);
                    ("leaf-replaced-foreign", Expect::Reject)
                } else {
                    let mut o = rng.below(n);
                    if o == v.idxs[j] {
                        o = (o + 1) % n;
                    }
                    v.leaves[j] = t.payloads[o as usize].clone();
                    ("leaf-replaced-other-committed", Expect::Reject)
                }
            }
            2 => {
                // moved leaf: same payload, another position; indices kept sorted
                let mut o = rng.below(n + 2);
                if o == v.idxs[j] {
                    o += 1;
                }
                v.idxs[j] = o;
                let mut z: Vec<(u64, Vec<u8>)> = v.idxs.iter().cloned().zip(v.leaves.iter().cloned()).collect();
                z.sort_by_key(|e| e.0);
                v.idxs = z.iter().map(|e| e.0).collect();
                v.leaves = z.into_iter().map(|e| e.1).collect();
                ("leaf-moved-sorted", Expect::Reject)
            }
            3 => {
                // moved leaf, list left as is (possibly unsorted)
                let mut o = rng.below(n + 2);
                if o == v.idxs[j] {
                    o += 1;
                }
                v.idxs[j] = o;
                ("leaf-moved-in-place", Expect::Reject)
            }
            4 => {
                if k >= 2 {
                    let j2 = (j + 1 + rng.below(k as u64 - 1) as usize) % k;
                    v.leaves.swap(j, j2);
                    ("leaves-swapped", Expect::Reject)
                } else {
                    v.leaves[j] = foreign(fresh);
                    ("leaf-replaced-foreign", Expect::Reject)
                }
            }
            5 => {
                // duplicated (index, leaf) entry: claims stay true, the walk never merges the two copies
                v.idxs.insert(j, v.idxs[j]);
                v.leaves.insert(j, v.leaves[j].clone());
                ("index-duplicated", Expect::Sound)
            }
            6 => {
                let cands = [n, n + 1, np2(n as usize) - 1, np2(n as usize), 2 * np2(n as usize), 1 << 32, (1 << 63) - 1, 1 << 63, u64::MAX - np2(n as usize), u64::MAX - np2(n as usize) + 1, u64::MAX - 1, u64::MAX];
                let cands: Vec<u64> = cands.iter().cloned().filter(|o| *o >= n).collect();
                let o = *rng.pick(&cands);
                let lf = if rng.coin() { foreign(fresh) } else { v.leaves[k - 1].clone() };
                if rng.coin() {
                    v.idxs[k - 1] = o;
                    v.leaves[k - 1] = lf;
                } else {
                    v.idxs.push(o);
                    v.leaves.push(lf);
                }
                ("index-out-of-range", Expect::Reject)
            }
            7 => {
                if k >= 2 {
                    let j2 = (j + 1) % k;
                    v.idxs.swap(j, j2);
                    if rng.coin() {
                        v.leaves.swap(j, j2);
                        ("unsorted-pairs-swapped", Expect::Sound)
                    } else {
                        ("unsorted-indices-swapped", Expect::Reject)
                    }
                } else {
                    v.idxs.push(v.idxs[0].wrapping_sub(1));
                    v.leaves.push(foreign(fresh));
                    ("unsorted-appended", Expect::Reject)
                }
            }
            8 => {
                if v.vals.is_empty() {
                    v.vals.push((junk_bytes(fresh), S::Junk(fresh)));
                    ("value-appended-unread", Expect::Accept)
                } else {
                    let q = rng.below(v.vals.len() as u64) as usize;
                    v.vals[q] = match rng.below(3) {
                        0 => (junk_bytes(fresh), S::Junk(fresh)),
                        1 => some_node(rng, &base.vals[q].0.clone()),
                        _ => {
                            let z = h(&[0u8]);
                            if z == base.vals[q].0 { (junk_bytes(fresh), S::Junk(fresh)) } else { (z, S::Lf(vec![0])) }
                        }
                    };
                    ("value-altered", Expect::Reject)
                }
            }
            9 => {
                if v.vals.is_empty() {
                    v.root = (junk_bytes(fresh), S::Junk(fresh));
                    ("root-junk", Expect::Reject)
                } else {
                    let q = rng.below(v.vals.len() as u64) as usize;
                    v.vals.remove(q);
                    ("value-dropped", Expect::Reject)
                }
            }
            10 => {
                if v.vals.is_empty() {
                    v.vals.push((junk_bytes(fresh), S::Junk(fresh)));
                    ("value-appended-unread", Expect::Accept)
                } else {
                    let q = rng.below(v.vals.len() as u64) as usize;
                    let c = v.vals[q].clone();
                    v.vals.insert(q, c);
                    let same = v.vals[..base.vals.len()].iter().zip(&base.vals).all(|(a, b)| a.0 == b.0);
                    ("value-duplicated", if same { Expect::Accept } else { Expect::Reject })
                }
            }
            11 => {
                v.vals.push(some_node(rng, &[]));
                ("value-appended-unread", Expect::Accept)
            }
            12 => {
                v.root = match rng.below(4) {
                    0 => (junk_bytes(fresh), S::Junk(fresh)),
                    1 => some_node(rng, &t.root.clone()),
                    2 => {
                        // root of the tree with one leaf replaced
                        let mut l2 = t.payloads.clone();
                        let q = rng.below(n) as usize;
                        l2[q] = foreign(fresh);
                        let t2 = vx::merkle_tree_new(&l2.iter().map(|p| Lf::new(p)).collect::<Vec<_>>());
                        (vx::merkle_tree_batch_commitment(&t2).root, S::RootOf(l2))
                    }
                    _ => {
                        // digest of (root, root): a well-formed digest that is no root
                        (h2(&t.root, &t.root), S::Nd(Box::new(S::N(0)), Box::new(S::N(0))))
                    }
                };
                ("root-altered", Expect::Reject)
            }
            13 => {
                let cands = [0u64, 1, n.saturating_sub(1), n + 1, np2(n as usize), np2(n as usize) + 1, 2 * np2(n as usize), np2(n as usize) / 2, 1 << 62, (1 << 63) - 1, 1 << 63, (1 << 63) + 1, u64::MAX - 1, u64::MAX];
                let mut o = *rng.pick(&cands);
                if o == n {
                    o = n + 2;
                }
                v.nrl = o;
                ("nr-leaves-altered", Expect::Sound)
            }
            14 => {
                let q = rng.below(k as u64) as usize;
                if rng.coin() {
                    v.leaves.remove(q);
                } else {
                    v.idxs.remove(q);
                }
                ("length-mismatch", Expect::Reject)
            }
            15 => {
                // claim the padding pre-image at the first position behind the leaves: outside the
                // separation assumption (a leaf payload is never the single byte 0), not judged
                v.idxs.push(n);
                v.leaves.push(vec![0]);
                ("hsep-padding-claim", Expect::NotJudged)
            }
            _ => {
                v.idxs.clear();
                v.leaves.clear();
                ("empty", Expect::Reject)
            }
        };
        Mutated { kind: kind.into(), v, expect }
    }
    pub const N_MUT: u64 = 17;

    pub fn desc(t_tag: u8, t: &Tree, v: &VIn) -> serde_json::Value {
        serde_json::json!({
            "tree": {"leaves": t.n(), "payload_of_leaf_i": format!("[1,{},i>>8,i&255]", t_tag)},
            "root": format!("{:?}", v.root.1), "nr_leaves_claimed": v.nrl,
            "claimed_leaves": v.leaves.iter().map(hex::encode).collect::<Vec<_>>(),
            "indices": v.idxs.iter().map(|i| i.to_string()).collect::<Vec<_>>(),
            "path_values": v.vals.iter().map(|x| format!("{:?}", x.1)).collect::<Vec<_>>(),
        })
    }

    fn push_verify(sink: &mut Sink, id: u64, tag: u8, t: &Tree, kind: String, v: &VIn, expect: Expect, paired: bool) {
        let out = verify(v);
        let acc = out == 0;
        let root_honest = v.root.0 == t.root;
        let (holds, why) = match expect {
            Expect::NotJudged => (None, None),
            _ if acc && !(root_honest && claims_true(t, v)) => (
                Some(false),
                Some("the verifier accepted although a claimed leaf is not the committed leaf at its index (or the root is not the committed root)".to_string()),
            ),
            Expect::Accept if !acc => (Some(false), Some("an honest proof does not verify".to_string())),
            Expect::Reject if acc && !paired => (Some(false), Some("an altered proof component was accepted".to_string())),
            _ => (Some(true), None),
        };
        sink.push(Case {
            id,
            kind: format!("stm/{}", kind),
            desc: desc(tag, t, v),
            model: Some(model_verify(t, v)),
            impl_obs: coq::oz(out as i128),
            holds,
            why,
            known: None,
            nontrivial: t.n() >= 2,
            key: format!("stm/{}/{}/{:?}/{:?}/{}/{:?}/{:?}", kind, t.n(), v.idxs, v.leaves, v.nrl, v.root.1, v.vals.iter().map(|x| &x.1).collect::<Vec<_>>()),
        });
    }

    fn push_gen(sink: &mut Sink, id: u64, t: &Tree, kind: &str, idxs: &[u64], must_work: bool) {
        let g = gen(t, idxs);
        let (obs, holds, why) = match &g {
            None => (coq::ol(&[coq::oz(2)]), if must_work { Some(false) } else { Some(true) }, if must_work { Some("generation panicked on a valid index list".to_string()) } else { None }),
            Some((vals, ix)) => {
                let ps: Vec<String> = vals
                    .iter()
                    .map(|v| match t.pos_of.get(v) {
                        Some(p) => coq::on(*p),
                        None => coq::oz(-1),
                    })
                    .collect();
                // honest proofs must verify
                let ok = if must_work {
                    let v = honest_input(t, idxs);
                    verify(&v) == 0 && ix == idxs
                } else {
                    true
                };
                (
                    coq::ol(&[coq::oz(0), coq::ol(&ps), coq::oln(ix)]),
                    Some(ok),
                    if ok { None } else { Some("the generated batch path does not verify against the commitment".to_string()) },
                )
            }
        };
        sink.push(Case {
            id,
            kind: format!("stm/{}", kind),
            desc: serde_json::json!({"tree_leaves": t.n(), "indices": idxs.iter().map(|i| i.to_string()).collect::<Vec<_>>()}),
            model: Some(format!("C09.Model.run_stm_gen {} {}", coq_ll(&t.payloads), coq::list_n(idxs))),
            impl_obs: obs,
            holds,
            why,
            known: None,
            nontrivial: t.n() >= 2,
            key: format!("stm/gen/{}/{:?}", t.n(), idxs),
        });
    }

    /// honest generation + verification, then `nmut` single mutations and `npair` paired ones
    fn explore(sink: &mut Sink, rng: &mut Rng, tag: u8, t: &Tree, idxs: &[u64], kind: &str, nmut: usize, npair: usize, all_muts: bool) {
        if let Some(id) = sink.wants() {
            push_gen(sink, id, t, kind, idxs, true);
        }
        let mut base: Option<VIn> = None;
        let muts: Vec<u64> = if all_muts { (0..N_MUT).collect() } else { (0..nmut).map(|_| rng.below(N_MUT)).collect() };
        for w in muts {
            let mut r = rng.fork();
            let Some(id) = sink.wants() else { continue };
            let b = base.get_or_insert_with(|| honest_input(t, idxs));
            let m = mutate(t, b, &mut r, w);
            push_verify(sink, id, tag, t, m.kind.clone(), &m.v, m.expect, false);
        }
        for _ in 0..npair {
            let mut r = rng.fork();
            let (w1, w2) = (rng.below(N_MUT - 2), rng.below(N_MUT - 2));
            let Some(id) = sink.wants() else { continue };
            let b = base.get_or_insert_with(|| honest_input(t, idxs));
            let m1 = mutate(t, b, &mut r, w1);
            if m1.v.idxs.is_empty() || m1.v.leaves.is_empty() {
                push_verify(sink, id, tag, t, m1.kind.clone(), &m1.v, m1.expect, false);
                continue;
            }
            let mut m2 = mutate(t, &m1.v, &mut r, w2);
            // re-describe appended/duplicated values relative to the honest path: only soundness is judged
            if m1.expect == Expect::NotJudged {
                m2.expect = Expect::NotJudged;
            }
            let e = if m2.expect == Expect::NotJudged { Expect::NotJudged } else { Expect::Sound };
            push_verify(sink, id, tag, t, format!("pair:{}+{}", m1.kind, m2.kind), &m2.v, e, true);
        }
    }

    pub fn run(sink: &mut Sink, rng: &mut Rng, thorough: bool) {
        // 1. exhaustive: every size <= NMAX, every non-empty subset
        let nmax = 10;
        for n in 1..=nmax {
            let tag = n as u8;
            let t = Tree::new(tag, n);
            for mask in 1u32..(1 << n) {
                let idxs: Vec<u64> = (0..n as u64).filter(|i| mask >> i & 1 == 1).collect();
                let (nm, np) = if thorough { (4, 1) } else { (1, if mask % 4 == 0 { 1 } else { 0 }) };
                let all = n <= 5 && (thorough || mask % 3 == 1);
                explore(sink, rng, tag, &t, &idxs, "exhaustive", nm, np, all);
            }
            // generator asserts: empty, out of range, unsorted, duplicated
            let bad: Vec<Vec<u64>> = vec![vec![], vec![n as u64], vec![0, n as u64], vec![u64::MAX], vec![0, 0], if n >= 2 { vec![1, 0] } else { vec![0, 0, 0] }];
            for b in bad {
                if let Some(id) = sink.wants() {
                    push_gen(sink, id, &t, "gen-assert", &b, false);
                }
            }
        }
        // 2. sampled sizes
        let (ntrees, top) = if thorough { (220, 520) } else { (36, 300) };
        for k in 0..ntrees {
            let n = match k % 6 {
                0 => rng.range(11, 40),
                1 => 1 << rng.range(4, if thorough { 9 } else { 8 }),
                2 => (1 << rng.range(4, if thorough { 9 } else { 8 })) + 1,
                3 => (1 << rng.range(4, if thorough { 9 } else { 8 })) - 1,
                _ => rng.range(11, top),
            } as usize;
            let tag = 100 + (k % 100) as u8;
            let t = Tree::new(tag, n);
            let shapes = if thorough { 4 } else { 3 };
            for s in 0..shapes {
                let mut idxs: Vec<u64> = match (s + k) % 5 {
                    0 => {
                        let c = rng.range(1, 12.min(n as u64));
                        (0..c).map(|_| rng.below(n as u64)).collect()
                    }
                    1 => vec![n as u64 - 1],
                    2 => {
                        // a run of neighbours ending at the last leaf + the first leaf
                        let c = rng.range(1, 6.min(n as u64));
                        let mut v: Vec<u64> = (n as u64 - c..n as u64).collect();
                        v.push(0);
                        v
                    }
                    3 => {
                        let c = rng.range(1, 40.min(n as u64));
                        (0..c).map(|_| rng.below(n as u64)).collect()
                    }
                    _ => {
                        if n <= 64 { (0..n as u64).collect() } else { (0..n as u64).filter(|_| rng.chance(1, 4)).collect() }
                    }
                };
                idxs.sort();
                idxs.dedup();
                if idxs.is_empty() {
                    idxs.push(0);
                }
                explore(sink, rng, tag, &t, &idxs, "sampled", if thorough { 5 } else { 3 }, 1, false);
            }
        }
    }
}

fn main() {
    let args = hc::parse_args();
    let mut rng = Rng::new(args.seed);
    let mut sink = Sink::new(&args);
    stm::run(&mut sink, &mut rng, args.thorough);
    sink.finish();
}
