//! harness crate h_common (binaries in src/bin)
