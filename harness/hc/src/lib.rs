//! Shared pieces of every correspondence harness: one PRNG, Coq term
//! printers for the universal observation type, the case record and its
//! JSON-lines writer, command-line handling.
use serde::Serialize;
use std::io::Write;

/// SplitMix64 — every random choice of a harness derives from one state.
#[derive(Clone)]
pub struct Rng(pub u64);
impl Rng {
    pub fn new(seed: u64) -> Self {
        Rng(seed.wrapping_mul(0x9E3779B97F4A7C15).wrapping_add(0x1234_5678_9ABC_DEF1))
    }
    pub fn next(&mut self) -> u64 {
        self.0 = self.0.wrapping_add(0x9E3779B97F4A7C15);
        let mut z = self.0;
        z = (z ^ (z >> 30)).wrapping_mul(0xBF58476D1CE4E5B9);
        z = (z ^ (z >> 27)).wrapping_mul(0x94D049BB133111EB);
        z ^ (z >> 31)
    }
    /// uniform in [0, n)  (n > 0)
    pub fn below(&mut self, n: u64) -> u64 {
        self.next() % n
    }
    pub fn range(&mut self, lo: u64, hi_incl: u64) -> u64 {
        lo + self.below(hi_incl - lo + 1)
    }
    pub fn coin(&mut self) -> bool {
        self.next() & 1 == 1
    }
    pub fn chance(&mut self, num: u64, den: u64) -> bool {
        self.below(den) < num
    }
    pub fn pick<'a, T>(&mut self, xs: &'a [T]) -> &'a T {
        &xs[self.below(xs.len() as u64) as usize]
    }
    pub fn bytes(&mut self, n: usize) -> Vec<u8> {
        (0..n).map(|_| self.next() as u8).collect()
    }
    pub fn shuffle<T>(&mut self, xs: &mut [T]) {
        for i in (1..xs.len()).rev() {
            let j = self.below(i as u64 + 1) as usize;
            xs.swap(i, j);
        }
    }
    /// independent sub-stream
    pub fn fork(&mut self) -> Rng {
        Rng(self.next())
    }
}

/// Coq term printers (all in the syntax accepted after `From MV Require Import Base.Prelude.`).
pub mod coq {
    pub fn n(x: u64) -> String {
        format!("{}%N", x)
    }
    pub fn n128(x: u128) -> String {
        format!("{}%N", x)
    }
    /// a decimal string (arbitrary size) as N
    pub fn ndec(s: &str) -> String {
        format!("{}%N", s)
    }
    pub fn z(x: i128) -> String {
        if x < 0 {
            format!("({})%Z", x)
        } else {
            format!("{}%Z", x)
        }
    }
    pub fn b(x: bool) -> String {
        if x { "true".into() } else { "false".into() }
    }
    pub fn list(items: &[String]) -> String {
        format!("[{}]", items.join("; "))
    }
    pub fn list_n(xs: &[u64]) -> String {
        list(&xs.iter().map(|x| n(*x)).collect::<Vec<_>>())
    }
    pub fn bytes(xs: &[u8]) -> String {
        list(&xs.iter().map(|x| n(*x as u64)).collect::<Vec<_>>())
    }
    pub fn opt(x: Option<String>) -> String {
        match x {
            Some(s) => format!("(Some {})", s),
            None => "None".into(),
        }
    }
    pub fn pair(a: &str, b: &str) -> String {
        format!("({}, {})", a, b)
    }
    /// Coq string literal
    pub fn string(s: &str) -> String {
        format!("\"{}\"%string", s.replace('"', "\"\""))
    }
    // ---- observations (type MV.Base.Prelude.obs) ----
    pub fn oz(x: i128) -> String {
        format!("OZ {}", z(x))
    }
    pub fn on(x: u64) -> String {
        format!("OZ {}%Z", x)
    }
    pub fn on128(x: u128) -> String {
        format!("OZ {}%Z", x)
    }
    pub fn ob(x: bool) -> String {
        format!("OZ {}%Z", if x { 1 } else { 0 })
    }
    pub fn ol(items: &[String]) -> String {
        format!("OL [{}]", items.iter().map(|s| paren(s)).collect::<Vec<_>>().join("; "))
    }
    pub fn oln(xs: &[u64]) -> String {
        ol(&xs.iter().map(|x| on(*x)).collect::<Vec<_>>())
    }
    pub fn oopt(x: Option<String>) -> String {
        match x {
            Some(s) => ol(&[s]),
            None => ol(&[]),
        }
    }
    /// result outcome: Ok payload / Err / Panic  (ORes in Prelude.v)
    pub fn ores_ok(payload: String) -> String {
        ol(&[oz(0), payload])
    }
    pub fn ores_err() -> String {
        ol(&[oz(1)])
    }
    pub fn ores_panic() -> String {
        ol(&[oz(2)])
    }
    fn paren(s: &str) -> String {
        if s.starts_with('(') { s.to_string() } else { format!("({})", s) }
    }
}

/// One explored case.
#[derive(Serialize, Clone, Debug)]
pub struct Case {
    /// position in the deterministic stream for (seed, tier)
    pub id: u64,
    /// generator / mutation class (input distribution is reported from this)
    pub kind: String,
    /// human-readable description of the input (goes to replay files and samples)
    pub desc: serde_json::Value,
    /// Coq term of type `obs`: the model run on this case (None: implementation-only case)
    pub model: Option<String>,
    /// Coq term of type `obs`: what the implementation did
    pub impl_obs: String,
    /// the property itself evaluated on the implementation's observation by an
    /// independent oracle (provenance known to the generator); None = not judged
    pub holds: Option<bool>,
    /// explanation when holds == Some(false)
    pub why: Option<String>,
    /// id of the known-finding class this case falls in (only meaningful when holds == Some(false))
    pub known: Option<String>,
    /// non-trivial by the property's stated rule
    pub nontrivial: bool,
    /// canonical key used to count distinct cases
    pub key: String,
}

pub struct Args {
    pub seed: u64,
    pub thorough: bool,
    pub out: String,
    pub only: Option<u64>,
    pub extra: Vec<String>,
}

pub fn parse_args() -> Args {
    let mut a = Args { seed: 1, thorough: false, out: "cases.jsonl".into(), only: None, extra: vec![] };
    let v: Vec<String> = std::env::args().skip(1).collect();
    let mut i = 0;
    while i < v.len() {
        match v[i].as_str() {
            "--seed" => {
                a.seed = v[i + 1].parse().expect("seed");
                i += 1
            }
            "--tier" => {
                a.thorough = v[i + 1] == "thorough";
                i += 1
            }
            "--out" => {
                a.out = v[i + 1].clone();
                i += 1
            }
            "--only" => {
                a.only = Some(v[i + 1].parse().expect("only"));
                i += 1
            }
            other => a.extra.push(other.to_string()),
        }
        i += 1;
    }
    a
}

/// Collects cases, honours `--only`, writes JSON lines.
pub struct Sink {
    file: std::io::BufWriter<std::fs::File>,
    next_id: u64,
    only: Option<u64>,
    pub written: u64,
}

impl Sink {
    pub fn new(args: &Args) -> Self {
        let f = std::fs::File::create(&args.out).expect("create out file");
        Sink { file: std::io::BufWriter::new(f), next_id: 0, only: args.only, written: 0 }
    }
    /// Reserve the next id; returns None when `--only` selects another case
    /// (generators must still consume their random choices identically).
    pub fn wants(&mut self) -> Option<u64> {
        let id = self.next_id;
        self.next_id += 1;
        match self.only {
            Some(o) if o != id => None,
            _ => Some(id),
        }
    }
    pub fn push(&mut self, c: Case) {
        serde_json::to_writer(&mut self.file, &c).expect("write case");
        self.file.write_all(b"\n").unwrap();
        self.written += 1;
    }
    pub fn finish(mut self) {
        self.file.flush().unwrap();
    }
}

/// Run `f`, mapping a panic to None.  The default panic hook is silenced for
/// the duration so expected panics do not flood stderr.
pub fn catch<T>(f: impl FnOnce() -> T + std::panic::UnwindSafe) -> Option<T> {
    let prev = std::panic::take_hook();
    std::panic::set_hook(Box::new(|_| {}));
    let r = std::panic::catch_unwind(f).ok();
    std::panic::set_hook(prev);
    r
}
