"""Driver: build, audit, correspondence run, verdict, evidence.  Python 3 stdlib only."""
import concurrent.futures as cf
import fcntl
import glob
import hashlib
import json
import os
import re
import shutil
import subprocess
import sys
import time

import gen_consts

ROOT = os.path.dirname(os.path.dirname(os.path.abspath(__file__)))
COQ = os.path.join(ROOT, "coq")
HARNESS = os.path.join(ROOT, "harness")
TARGET = os.path.join(ROOT, "target")
WORK = os.path.join(ROOT, "work")
EVID = os.path.join(ROOT, "evidence")
GUARD = "mithril_verif"
EXTRA_ID_BASE = 1000000
NCPU = os.cpu_count() or 4

STD_AXIOMS_ALLOWED = {
    # axioms declared by Coq's standard library; each one that actually occurs is
    # reported in the evidence file of the property that relies on it
    "ClassicalDedekindReals.sig_forall_dec",
    "ClassicalDedekindReals.sig_not_dec",
    "FunctionalExtensionality.functional_extensionality_dep",
    "Classical_Prop.classic",
    "ClassicalEpsilon.constructive_indefinite_description",
    "ProofIrrelevance.proof_irrelevance",
    "Eqdep.Eq_rect_eq.eq_rect_eq",
    "JMeq.JMeq_eq",
    "PropExtensionality.propositional_extensionality",
    "Raxioms.completeness", "Rdefinitions.Rabst", "Rdefinitions.Rrepr",
}

FORBIDDEN = [
    r"\bAdmitted\b", r"\badmit\b", r"\bAxiom\b", r"\bAxioms\b", r"\bParameter\b", r"\bParameters\b",
    r"\bConjecture\b", r"\bUnset\s+Guard", r"\bbypass_check\b", r"type-in-type", r"impredicative-set",
    r"\bAdmit\s+Obligations\b", r"\bUnset\s+Positivity", r"\bUnset\s+Universe\s+Checking", r"\bgive_up\b",
]


def log(*a):
    print(*a, flush=True)


def sh(cmd, cwd=None, env=None, timeout=None, stdout=subprocess.PIPE):
    e = dict(os.environ)
    if env:
        e.update(env)
    try:
        p = subprocess.run(cmd, cwd=cwd, env=e, stdout=stdout, stderr=subprocess.STDOUT, timeout=timeout,
                           shell=isinstance(cmd, str), text=True, errors="replace")
        return p.returncode, p.stdout or ""
    except subprocess.TimeoutExpired as ex:
        out = ex.stdout or ""
        if isinstance(out, bytes):
            out = out.decode(errors="replace")
        return 124, out + "\n[timeout]"


# --------------------------------------------------------------------------- property registry

def load_prop(pid):
    p = os.path.join(ROOT, "props", pid + ".json")
    if not os.path.exists(p):
        raise SystemExit(f"unknown property {pid} (no props/{pid}.json)")
    with open(p) as f:
        return json.load(f)


def all_props():
    return sorted(os.path.basename(p)[:-5] for p in glob.glob(os.path.join(ROOT, "props", "C*.json")))


def known_findings():
    p = os.path.join(ROOT, "known_findings.json")
    if not os.path.exists(p):
        return {}
    with open(p) as f:
        d = json.load(f)
    return {x["id"]: x for x in d.get("findings", []) if x.get("status") == "open"}


# --------------------------------------------------------------------------- Coq side

class Lock:
    def __init__(self, path):
        self.path = path

    def __enter__(self):
        os.makedirs(os.path.dirname(self.path), exist_ok=True)
        self.f = open(self.path, "w")
        fcntl.flock(self.f, fcntl.LOCK_EX)

    def __exit__(self, *a):
        fcntl.flock(self.f, fcntl.LOCK_UN)
        self.f.close()


def strip_comments(s):
    out, depth, i, n = [], 0, 0, len(s)
    in_str = False
    while i < n:
        if depth == 0 and s[i] == '"':
            in_str = not in_str
            out.append(s[i]); i += 1; continue
        if not in_str and s.startswith("(*", i):
            depth += 1; i += 2; continue
        if not in_str and depth > 0 and s.startswith("*)", i):
            depth -= 1; i += 2; continue
        if depth == 0:
            out.append(s[i])
        i += 1
    return "".join(out)


def coq_sources():
    fs = []
    for d, _, names in os.walk(COQ):
        for nm in names:
            if nm.endswith(".v") and not nm.startswith("."):
                fs.append(os.path.relpath(os.path.join(d, nm), COQ))
    return sorted(fs)


def regen_coqproject():
    hdr = ["-Q . MV",
           "-arg -w -arg -notation-overridden,-ambiguous-paths,-deprecated-hint-without-locality,-deprecated-instance-without-locality,-deprecated-syntactic-definition,-future-coercion-class-field"]
    text = "\n".join(hdr + coq_sources()) + "\n"
    p = os.path.join(COQ, "_CoqProject")
    old = open(p).read() if os.path.exists(p) else None
    if old != text or not os.path.exists(os.path.join(COQ, "Makefile")):
        with open(p, "w") as f:
            f.write(text)
        rc, out = sh(["coq_makefile", "-f", "_CoqProject", "-o", "Makefile"], cwd=COQ, timeout=120)
        if rc != 0:
            raise SystemExit("coq_makefile failed:\n" + out)


def regen_consts():
    """returns (ok, message)"""
    try:
        gen_consts.main(os.path.join(COQ, "Gen", "Consts.v"))
        return True, ""
    except gen_consts.TranslatorError as e:
        return False, str(e)


def coq_make(targets, timeout):
    with Lock(os.path.join(WORK, "coq.lock")):
        regen_coqproject()
        rc, out = sh(["make", "-j", str(NCPU)] + targets, cwd=COQ, timeout=timeout)
    return rc == 0, out


def audit_sources(files):
    """forbidden vernacular / stray Variable-Hypothesis outside sections; returns list of problems"""
    problems = []
    for rel in files:
        src = strip_comments(open(os.path.join(COQ, rel), encoding="utf-8").read())
        for pat in FORBIDDEN:
            for m in re.finditer(pat, src):
                line = src.count("\n", 0, m.start()) + 1
                problems.append(f"{rel}:{line}: forbidden `{m.group(0)}`")
        depth = 0
        for ln, line in enumerate(src.split("\n"), 1):
            s = line.strip()
            if re.match(r"Section\s+\w+\s*\.", s):
                depth += 1
            elif re.match(r"End\s+\w+\s*\.", s) and depth > 0:
                depth -= 1
            elif depth == 0 and re.match(r"(Variable|Variables|Hypothesis|Hypotheses)\b", s):
                problems.append(f"{rel}:{ln}: `{s.split()[0]}` outside a Section")
    return problems


THM_RE = re.compile(r"^\s*(Theorem|Lemma|Corollary|Proposition|Example|Fact|Remark)\s+([A-Za-z_][\w']*)", re.M)


def theorems_of(rel):
    src = strip_comments(open(os.path.join(COQ, rel), encoding="utf-8").read())
    return [(m.group(1), m.group(2)) for m in THM_RE.finditer(src)]


def closure_files(prop):
    """the .v files the property's development consists of (its own dirs + Base + Gen)"""
    dirs = set(prop["coq"].get("dirs", [])) | {"Base", "Gen"}
    return [f for f in coq_sources() if f.split("/")[0] in dirs]


def print_assumptions(prop, workdir):
    """compile a tiny file printing the assumptions of every theorem of the Properties files"""
    mods, names = [], []
    for rel in prop["coq"]["properties"]:
        mod = "MV." + rel[:-2].replace("/", ".")
        mods.append(mod)
        for kind, nm in theorems_of(rel):
            names.append((mod, nm))
    lines = [f"Require {m}." for m in mods]
    for mod, nm in names:
        lines.append(f'Goal True. idtac "@@THM {nm}". exact I. Qed.')
        lines.append(f"Print Assumptions {mod}.{nm}.")
    p = os.path.join(workdir, "assumptions.v")
    with open(p, "w") as f:
        f.write("\n".join(lines) + "\n")
    rc, out = sh(["coqc", "-noglob", "-Q", COQ, "MV", p], cwd=workdir, timeout=600)
    if rc != 0:
        return None, out
    res, cur = {}, None
    for line in out.split("\n"):
        m = re.match(r"@@THM (\S+)", line)
        if m:
            cur = m.group(1); res[cur] = []; continue
        if cur is None:
            continue
        if line.strip() in ("Axioms:", "Closed under the global context"):
            continue
        m = re.match(r"^([A-Za-z_][\w'.]*)\s*:", line)
        if m and not line.startswith(" ") and m.group(1) != "Axioms":
            res[cur].append(m.group(1))
    return res, out


# --------------------------------------------------------------------------- harness side

def cargo_env():
    return {
        "CARGO_NET_OFFLINE": "true",
        "CARGO_TARGET_DIR": TARGET,
        "RUSTFLAGS": f"--cfg {GUARD}",
        "CARGO_TERM_COLOR": "never",
    }


def cargo_build(bins=None, package=None, release=False, timeout=3600):
    cmd = ["cargo", "build", "--offline"]
    if release:
        cmd.append("--release")
    if package:
        cmd += ["-p", package]
    for b in bins or []:
        cmd += ["--bin", b]
    with Lock(os.path.join(WORK, "cargo.lock")):
        rc, out = sh(cmd, cwd=HARNESS, env=cargo_env(), timeout=timeout)
    return rc == 0, out


def run_harness(prop, seed, tier, out_path, only=None, timeout=3600, extra=None, bin_name=None):
    exe = os.path.join(TARGET, "debug", bin_name or prop["harness"]["bin"])
    cmd = [exe, "--seed", str(seed), "--tier", tier, "--out", out_path]
    if only is not None:
        cmd += ["--only", str(only)]
    cmd += extra or []
    env = {"VERIF_WORK": os.path.dirname(out_path), "RUST_BACKTRACE": "0"}
    rc, out = sh(cmd, cwd=os.path.dirname(out_path), env=env, timeout=timeout)
    return rc, out


def read_cases(path):
    cases = []
    with open(path) as f:
        for line in f:
            line = line.strip()
            if line:
                cases.append(json.loads(line))
    return cases


# --------------------------------------------------------------------------- model evaluation in Coq

def eval_shard(args):
    idx, header, terms, workdir, timeout = args
    p = os.path.join(workdir, f"cases_{idx}.v")
    with open(p, "w") as f:
        f.write(header)
        for t in terms:
            f.write(f"Eval vm_compute in ({t}).\n")
    rc, out = sh(["coqc", "-noglob", "-Q", COQ, "MV", p], cwd=workdir, timeout=timeout)
    if rc != 0:
        return idx, None, out
    vals = re.split(r"^\s+= ", out, flags=re.M)[1:]
    res = []
    for v in vals:
        v = re.split(r"^\s+: ", v, flags=re.M)[0]
        res.append(" ".join(v.split()))
    if len(res) != len(terms):
        return idx, None, f"expected {len(terms)} results, got {len(res)}\n" + out[-2000:]
    return idx, res, ""


def coq_header(prop):
    imps = ["Base.Prelude"] + prop["coq"]["imports"]
    h = "From MV Require Import " + " ".join(imps) + ".\n"
    h += "Set Printing Width 1000000.\nSet Printing Depth 1000000.\n"
    h += "Open Scope N_scope.\n"
    h += prop["coq"].get("case_preamble", "")
    return h


def eval_terms(prop, terms, workdir, per_shard=None, timeout=1800):
    """evaluate Coq terms with vm_compute, sharded over all cores; returns list of printed values or raises"""
    if not terms:
        return []
    per = per_shard or max(1, min(prop["coq"].get("cases_per_shard", 400), (len(terms) + NCPU - 1) // NCPU))
    shards = [terms[i:i + per] for i in range(0, len(terms), per)]
    header = coq_header(prop)
    jobs = [(i, header, s, workdir, timeout) for i, s in enumerate(shards)]
    results = [None] * len(shards)
    with cf.ThreadPoolExecutor(max_workers=NCPU) as ex:
        for idx, res, err in ex.map(eval_shard, jobs):
            if res is None:
                raise RuntimeError(f"coqc failed on shard {idx}:\n{err[-3000:]}")
            results[idx] = res
    flat = []
    for r in results:
        flat.extend(r)
    for fpath in glob.glob(os.path.join(workdir, "cases_*")) + glob.glob(os.path.join(workdir, ".cases_*")):
        try:
            os.remove(fpath)
        except OSError:
            pass
    return flat


# --------------------------------------------------------------------------- verdict helpers

def write_replay(pid, name, payload):
    d = os.path.join(EVID, "replay")
    os.makedirs(d, exist_ok=True)
    path = os.path.join(d, f"{pid}-{name}.json")
    payload = dict(payload)
    payload["property"] = pid
    payload["rerun"] = f"./check {pid} --replay evidence/replay/{pid}-{name}.json"
    with open(path, "w") as f:
        json.dump(payload, f, indent=1, sort_keys=True)
    return os.path.relpath(path, ROOT)


def violation(pid, replay, found_input):
    tail = "" if found_input else " no-failing-input-found"
    log(f"VIOLATION property={pid} replay={replay}{tail}")


# --------------------------------------------------------------------------- main check

def check(pid, tier, seed, replay_file=None):
    t0 = time.time()
    prop = load_prop(pid)
    workdir = os.path.join(WORK, pid)
    shutil.rmtree(workdir, ignore_errors=True)
    os.makedirs(workdir, exist_ok=True)
    os.makedirs(EVID, exist_ok=True)
    evid_path = os.path.join(EVID, pid + ".json")
    kf = {k: v for k, v in known_findings().items() if v["property"] == pid}

    replay = None
    if replay_file:
        with open(replay_file if os.path.isabs(replay_file) else os.path.join(ROOT, replay_file)) as f:
            replay = json.load(f)
        seed = replay.get("seed", seed)
        tier = replay.get("tier", tier)

    broken = []        # obligations that no longer check: (oracle, detail)
    # 1. translator
    ok, msg = regen_consts()
    if not ok:
        broken.append(("translator", msg))
    # 2. proofs
    files = closure_files(prop)
    statements = []
    for f in files:
        statements += [(f, k, n) for k, n in theorems_of(f)]
    prop_thms = []
    for rel in prop["coq"]["properties"]:
        prop_thms += [n for k, n in theorems_of(rel)]
    targets = [t for t in prop["coq"]["targets"]]
    quick_to = 1500
    ok, out = coq_make(targets, timeout=quick_to if tier == "quick" else 3600)
    proofs_ok = ok
    failing_file = None
    if not ok:
        m = re.search(r'File "\./([^"]+)", line (\d+)', out)
        failing_file = m.group(1) if m else None
        tail = "\n".join(out.strip().split("\n")[-25:])
        broken.append(("proof", f"coq build failed{' in ' + failing_file if failing_file else ''}:\n{tail}"))
    # 3. audit
    problems = audit_sources(files)
    if problems:
        broken.append(("audit", "; ".join(problems[:10])))
    axioms_used = {}
    if proofs_ok:
        res, out = print_assumptions(prop, workdir)
        if res is None:
            broken.append(("proof", "Print Assumptions run failed:\n" + out[-2000:]))
        else:
            axioms_used = res
            allowed = STD_AXIOMS_ALLOWED & set(prop["coq"].get("allowed_axioms", list(STD_AXIOMS_ALLOWED)))
            for thm, axs in res.items():
                for a in axs:
                    short = a
                    if not any(a == x or a.endswith("." + x) or x.endswith("." + a) or a.split(".")[-1] == x.split(".")[-1] for x in allowed):
                        broken.append(("audit", f"theorem {thm} depends on non-allow-listed axiom {a}"))
    if tier == "thorough" and proofs_ok and prop["coq"].get("coqchk", True):
        mods = ["MV." + rel[:-2].replace("/", ".") for rel in prop["coq"]["properties"]]
        rc, out = sh(["coqchk", "-silent", "-o", "-Q", COQ, "MV"] + mods, cwd=COQ, timeout=3000)
        with open(os.path.join(workdir, "coqchk.log"), "w") as f:
            f.write(out)
        if rc != 0:
            broken.append(("proof", "coqchk rejected the compiled development:\n" + out[-1500:]))

    # 4. harness build from the current working tree
    hb_ok, hb_out = cargo_build(bins=[prop["harness"]["bin"]], package=prop["harness"]["package"])
    cases, disagreements, model_vals = [], [], {}
    harness_log = ""
    if not hb_ok:
        tail = "\n".join([l for l in hb_out.split("\n") if l.strip()][-40:])
        broken.append(("harness-build", "harness no longer builds against /repo:\n" + tail))
    else:
        # 5. run the implementation
        cases_path = os.path.join(workdir, "cases.jsonl")
        only = replay.get("case_id") if replay else None
        to = prop["harness"].get("timeout_quick", 1200) if tier == "quick" else prop["harness"].get("timeout_thorough", 7200)
        rc, harness_log = run_harness(prop, seed, tier, cases_path, only=only, timeout=to)
        if rc != 0 or not os.path.exists(cases_path):
            broken.append(("harness-run", f"harness exited with {rc}:\n" + harness_log[-3000:]))
        else:
            cases = read_cases(cases_path)
        # further entry points of the same property that live in another crate of /repo: extra harness
        # binaries; their case ids are offset by EXTRA_ID_BASE * (k + 1)
        for k, xh in enumerate(prop["harness"].get("extra", [])):
            base_id = EXTRA_ID_BASE * (k + 1)
            x_only = None
            if only is not None:
                if not (base_id <= int(only) < base_id + EXTRA_ID_BASE):
                    continue
                x_only = int(only) - base_id
            ok_x, out_x = cargo_build(bins=[xh["bin"]], package=xh["package"])
            if not ok_x:
                tail = "\n".join([l for l in out_x.split("\n") if l.strip()][-40:])
                broken.append(("harness-build", f"extra harness {xh['bin']} no longer builds against /repo:\n" + tail))
                continue
            xp = os.path.join(workdir, f"cases_extra{k}.jsonl")
            rc_x, log_x = run_harness(prop, seed, tier, xp, only=x_only, timeout=to, bin_name=xh["bin"])
            if rc_x != 0 or not os.path.exists(xp):
                broken.append(("harness-run", f"extra harness {xh['bin']} exited with {rc_x}:\n" + log_x[-3000:]))
                continue
            for c in read_cases(xp):
                c["id"] = base_id + int(c["id"])
                cases.append(c)
        if only is not None and int(only) >= EXTRA_ID_BASE:
            cases = [c for c in cases if int(c["id"]) == int(only)]
        # 6. evaluate the model on the same cases, compare inside Coq
        if cases:
            with_model = [c for c in cases if c.get("model")]
            limit = prop["coq"].get("max_model_cases_" + tier)
            if limit and len(with_model) > limit:
                # deterministic thinning: keep corpus/boundary kinds first, then a stride of the rest
                stride = (len(with_model) + limit - 1) // limit
                with_model = [c for i, c in enumerate(with_model) if i % stride == 0]
            terms = [f"obs_eqb ({c['model']}) ({c['impl_obs']})" for c in with_model]
            try:
                vals = eval_terms(prop, terms, workdir)
                for c, v in zip(with_model, vals):
                    model_vals[c["id"]] = v
                    if v != "true":
                        disagreements.append(c)
            except RuntimeError as e:
                broken.append(("model-eval", str(e)))
            if disagreements:
                # print the model's observation for the first few, for the replay files
                few = disagreements[:5]
                try:
                    vals = eval_terms(prop, [c["model"] for c in few], workdir, per_shard=1)
                    for c, v in zip(few, vals):
                        c["model_obs"] = v
                except RuntimeError:
                    pass

    # 7. decide
    failing = [c for c in cases if c.get("holds") is False]
    known_hits, unknown_fail = {}, []
    for c in failing:
        k = c.get("known")
        if k and k in kf:
            known_hits.setdefault(k, []).append(c)
        else:
            unknown_fail.append(c)
    nviol = 0
    exit_code = 0
    base = {"seed": seed, "tier": tier}

    def case_payload(c, oracle, extra=None):
        d = dict(base)
        d.update({"case_id": c["id"], "kind": c["kind"], "case": c["desc"], "model_term": c.get("model"),
                  "impl_obs": c["impl_obs"], "model_obs": c.get("model_obs"), "oracle": oracle,
                  "why": c.get("why"), "known_class": c.get("known")})
        if extra:
            d.update(extra)
        return d

    if replay:
        # replay mode: does the recorded case still fail?
        still = [c for c in cases if c.get("holds") is False or c in disagreements]
        if still or broken:
            c = still[0] if still else None
            if c:
                rp = write_replay(pid, f"replay-{c['id']}", case_payload(c, "spec" if c.get("holds") is False else "correspondence"))
                violation(pid, rp, c.get("holds") is False)
            else:
                rp = write_replay(pid, "replay-broken", dict(base, oracle=broken[0][0], detail=broken[0][1]))
                violation(pid, rp, False)
            return 1
        log(f"replay: case {replay.get('case_id')} no longer fails")
        return 0

    for k, cs in sorted(known_hits.items()):
        log(f"KNOWN-FINDING: property={pid} {kf[k]['text']} [{k}; {len(cs)} case(s) this run, e.g. {json.dumps(cs[0]['desc'])[:200]}]")

    if unknown_fail:
        c = unknown_fail[0]
        rp = write_replay(pid, f"{seed}-{c['id']}", case_payload(c, "spec"))
        violation(pid, rp, True)
        nviol = len(unknown_fail)
        exit_code = 1
    elif broken or disagreements:
        # the property is no longer shown to hold: search the implementation for a failing input
        found = None
        if hb_ok and tier == "quick" and not any(b[0] == "harness-run" for b in broken):
            log("obligation broken; searching the implementation for a failing input (thorough generators, implementation only)")
            sp = os.path.join(workdir, "search.jsonl")
            rc, _ = run_harness(prop, seed, "thorough", sp, timeout=prop["harness"].get("timeout_search", 900))
            for k, xh in enumerate(prop["harness"].get("extra", [])):
                xsp = os.path.join(workdir, f"search_extra{k}.jsonl")
                run_harness(prop, seed, "thorough", xsp, timeout=prop["harness"].get("timeout_search", 900), bin_name=xh["bin"])
                if os.path.exists(xsp) and found is None:
                    try:
                        for c in read_cases(xsp):
                            if c.get("holds") is False and not (c.get("known") in kf):
                                c["id"] = EXTRA_ID_BASE * (k + 1) + int(c["id"])
                                found = (c, "thorough")
                                break
                    except Exception:
                        pass
            if os.path.exists(sp) and found is None:
                try:
                    for c in read_cases(sp):
                        if c.get("holds") is False and not (c.get("known") in kf):
                            found = (c, "thorough")
                            break
                except Exception:
                    pass
        if found:
            c, t = found
            rp = write_replay(pid, f"{seed}-{c['id']}", dict(case_payload(c, "spec"), tier=t,
                              broken=[{"oracle": o, "detail": d[:4000]} for o, d in broken]))
            violation(pid, rp, True)
        else:
            payload = dict(base)
            payload["broken"] = [{"oracle": o, "detail": d[:6000]} for o, d in broken]
            if disagreements:
                c = disagreements[0]
                payload.update(case_payload(c, "correspondence"))
                payload["correspondence"] = f"model {prop['coq']['imports']} vs implementation: {len(disagreements)} disagreeing case(s)"
            else:
                payload["oracle"] = broken[0][0]
            rp = write_replay(pid, f"{seed}-unproved", payload)
            violation(pid, rp, False)
        nviol = max(1, len(disagreements))
        exit_code = 1

    # 8. evidence
    kinds = {}
    for c in cases:
        kinds[c["kind"]] = kinds.get(c["kind"], 0) + 1
    distinct = len({c["key"] for c in cases if c.get("nontrivial")})
    n_obl = len(statements)
    if proofs_ok:
        discharged = n_obl
    else:
        discharged = len([1 for (f, k, n) in statements if os.path.exists(os.path.join(COQ, f[:-2] + ".vo"))
                          and os.path.getmtime(os.path.join(COQ, f[:-2] + ".vo")) >= os.path.getmtime(os.path.join(COQ, f))])
    axset = sorted({a for axs in axioms_used.values() for a in axs})
    samples = []
    step = max(1, len(cases) // 5)
    for c in cases[::step][:6]:
        samples.append({"id": c["id"], "kind": c["kind"], "case": c["desc"], "model_term": (c.get("model") or "")[:600],
                        "impl_obs": c["impl_obs"][:600], "agrees_with_model": model_vals.get(c["id"]) == "true" if c["id"] in model_vals else None,
                        "property_holds_on_impl": c.get("holds")})
    trusted = ["Coq 8.16.1 kernel + vm_compute (no native_compute)" + ("; coqchk re-check" if tier == "thorough" else ""),
               "axioms reported by Print Assumptions: " + (", ".join(axset) if axset else "none (closed under the global context)"),
               "translator driver/gen_consts.py (constants read from /repo)",
               "correspondence harness harness/" + prop["harness"]["package"] + "/src/bin/" + prop["harness"]["bin"] + ".rs + driver/core.py (comparison by obs_eqb inside Coq)"]
    for xh in prop["harness"].get("extra", []):
        trusted.append("extra correspondence harness harness/" + xh["package"] + "/src/bin/" + xh["bin"] + ".rs (implementation-side entry point in another crate)")
    trusted += prop.get("trusted_base", [])
    ev = {
        "property_id": pid, "tier": tier, "seed": seed, "level": "proof",
        "coverage": {
            "obligations": n_obl, "discharged": discharged,
            "checker_cmd": f"make -C coq {' '.join(targets)} (coqc 8.16.1, full .vo build)" + ("; coqchk -o -silent" if tier == "thorough" else ""),
            "trusted_base": trusted,
            "property_theorems": prop_thms,
            "axioms_per_theorem": axioms_used,
            "evaluations": len(cases),
            "traces_validated_against_impl": len(model_vals),
            "disagreements": len(disagreements),
            "distinct_nontrivial": distinct,
            "rule": prop.get("rule", ""),
            "input_distribution": kinds,
            "known_findings_reproduced": {k: len(v) for k, v in known_hits.items()},
            "broken_obligations": [{"oracle": o, "detail": d[:1500]} for o, d in broken],
            "modelled": prop.get("modelled", ""),
            "samples": samples,
        },
        "assumptions": prop.get("assumptions", []),
        "wall_s": round(time.time() - t0, 2),
        "violations": nviol,
    }
    with open(evid_path, "w") as f:
        json.dump(ev, f, indent=1)
    log(f"{pid} [{tier}] seed={seed}: {n_obl} obligations, {discharged} discharged; {len(cases)} cases on the implementation, "
        f"{len(model_vals)} compared with the model, {len(disagreements)} disagreement(s), "
        f"{len(unknown_fail)} property failure(s), {sum(len(v) for v in known_hits.values())} in known classes; {ev['wall_s']} s")
    return exit_code


def setup():
    os.makedirs(WORK, exist_ok=True)
    ok, msg = regen_consts()
    if not ok:
        log("TRANSLATOR-ERROR:", msg)
        return 1
    t = time.time()
    ok, out = coq_make([], timeout=7200)
    log(out[-3000:])
    if not ok:
        log("setup: coq build failed")
        return 1
    log(f"setup: coq development built in {time.time() - t:.0f} s")
    t = time.time()
    rc, out = sh(["cargo", "build", "--offline", "--workspace", "--bins"], cwd=HARNESS, env=cargo_env(), timeout=4 * 3600)
    log(out[-3000:])
    if rc != 0:
        log("setup: harness build failed")
        return 1
    log(f"setup: harness built in {time.time() - t:.0f} s")
    return 0


def scratch_mode(argv):
    """./check --scratch-repo <worktree> <normal arguments...>
    Development aid (never used by a registered command): run the machinery against a scratch
    worktree of the repository instead of /repo.  Copies /verif (sources, compiled Coq, and a seed
    copy of the cargo target dir) to /tmp/verif-scratch-<hash>, rewrites the /repo/ paths of the
    harness workspace, and runs the check there.  Remove the directory when done."""
    repo = os.path.abspath(argv[1])
    rest = argv[2:]
    h = hashlib.md5(repo.encode()).hexdigest()[:8]
    dst = f"/tmp/verif-scratch-{h}"
    os.makedirs(dst, exist_ok=True)
    rc, out = sh(["rsync", "-a", "--delete", "--exclude", "/target", "--exclude", "/work", "--exclude", "/.git",
                  "--exclude", "/evidence", ROOT + "/", dst + "/"])
    if rc != 0:
        log(out); return 2
    for d, _, names in os.walk(os.path.join(dst, "harness")):
        for nm in names:
            if nm.endswith((".toml", ".rs")):
                fp = os.path.join(d, nm)
                t = open(fp).read()
                t2 = t.replace('"/repo/', '"' + repo + '/')
                if t2 != t:
                    open(fp, "w").write(t2)
    if not os.path.exists(os.path.join(dst, "target")) and os.path.exists(TARGET):
        sh(["cp", "-a", TARGET, os.path.join(dst, "target")])
    env = dict(os.environ, VERIF_REPO=repo)
    log(f"[scratch] running in {dst} against {repo}")
    return subprocess.call([os.path.join(dst, "check")] + rest, env=env, cwd=dst)


def main(argv):
    if argv and argv[0] == "--scratch-repo":
        return scratch_mode(argv)
    if not argv or argv[0] in ("-h", "--help"):
        print(__doc__ or "usage: check (--setup | Cxx [--tier quick|thorough] [--replay file])")
        return 2
    if argv[0] == "--setup":
        return setup()
    pid = argv[0]
    tier = os.environ.get("VERIF_TIER", "quick")
    seed = int(os.environ.get("VERIF_SEED", "1"))
    replay = None
    i = 1
    while i < len(argv):
        if argv[i] == "--tier":
            tier = argv[i + 1]; i += 1
        elif argv[i] == "--replay":
            replay = argv[i + 1]; i += 1
        elif argv[i] == "--seed":
            seed = int(argv[i + 1]); i += 1
        i += 1
    if tier not in ("quick", "thorough"):
        tier = "quick"
    return check(pid, tier, seed, replay)
