#!/usr/bin/env python3
"""Regenerates MANIFEST.json from props/*.json (claimed checks) and properties.jsonl (everything else -> not_applicable)."""
import glob, json, os
ROOT = os.path.dirname(os.path.dirname(os.path.abspath(__file__)))
props = {}
for p in sorted(glob.glob(os.path.join(ROOT, "props", "C*.json"))):
    d = json.load(open(p)); props[d["id"]] = d
all_ids = [json.loads(l)["id"] for l in open(os.path.join(ROOT, "properties.jsonl")) if l.strip()]
pending = json.load(open(os.path.join(ROOT, "props", "pending.json"))) if os.path.exists(os.path.join(ROOT, "props", "pending.json")) else {}
hooks = json.load(open(os.path.join(ROOT, "props", "hooks.json")))
checks, na = [], []
for pid in all_ids:
    if pid in props and props[pid].get("claimed", False):
        m = props[pid]["manifest"]
        checks.append({
            "property_id": pid,
            "quick_cmd": f"./check {pid} --tier quick",
            "thorough_cmd": f"./check {pid} --tier thorough",
            "evidence_file": f"evidence/{pid}.json",
            "replay_cmd_template": f"./check {pid} --replay {{path}}",
            "engine": "coq-proof+correspondence",
            "level_claimed": {"category": "proof", "text": m["text"], "design_ref": m.get("design_ref", f"DESIGN.md section 6, {pid}")},
            "level_note": m["note"],
            "technique": m["technique"],
        })
    else:
        na.append({"property_id": pid, "reason": pending.get(pid, "no check registered yet in this revision: the Coq model and correspondence harness for this property are not built; see DESIGN.md section 6 for the planned model")})
man = {
    "version": 1,
    "setup_cmd": "./check --setup",
    "hooks": hooks,
    "engines": [{
        "name": "coq-proof+correspondence",
        "path": "check",
        "serves_properties": [c["property_id"] for c in checks],
        "kind_free_text": "Coq 8.16 theorems over hand-written executable models (coq/Cxx), tied to /repo on every run by a constants translator (driver/gen_consts.py) and by differential correspondence: Rust harnesses (harness/) run the real code, the model is evaluated by vm_compute inside coqc on the same cases and compared with obs_eqb",
    }],
    "checks": checks,
    "not_applicable": na,
    "notes": "All checks rebuild from /repo's working tree (cargo incremental into /verif/target, make in /verif/coq). See DESIGN.md; known findings in known_findings.json.",
}
json.dump(man, open(os.path.join(ROOT, "MANIFEST.json"), "w"), indent=1)
print(f"MANIFEST.json: {len(checks)} checks, {len(na)} not_applicable")
